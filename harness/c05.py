"""C05 - dimensionally incompatible operations fail loudly and change nothing.
Symbolic: every amount (so that NO value sneaks through: every path must end in the error).
Enumerated: cross-quantity-type unit pairs of the table, derived operands with different exponent
vectors, operation kinds. Each failing call is made twice; registry and operand snapshots are compared
and a battery of valid operations must answer as on a database where the failing call never happened."""
import random

import z3

from symx import core
from symx.check import Raised
from symx.core import approx

from . import exprs
from .common import build, fresh_posc_db, get_db, model_dims, n_leaves, oracle_convert, pushed, seeded_sample, snap_registry, snap_value, spec_str

PID = "C05"
FUNCTIONS = ["UnitDatabase._DoOperationWithSameQuantity (composing-units comparison)", "UnitDatabase.GetInfo/CheckQuantityTypeUnit/CheckCategoryUnit",
             "UnitDatabase.Convert/_ConvertWithExp", "Scalar.__lt__ + total_ordering", "FractionScalar.__lt__", "Quantity.__init__ (unit vs category)",
             "ObtainQuantity", "Array._DoOperation/GetValues", "AbstractValueWithQuantityObject.CreateCopy"]
EXTRA_KINDS = ["derived_construct", "derived_construct_rev", "lt_same_unit_text"]
MORE_KINDS = ["empty_array_add", "empty_array_sub", "construct_after_override", "db.Convert.exp", "derived.GetValue.exp"]
KINDS = ["add", "sub", "radd", "lt", "gt", "le", "GetValue", "CreateCopy", "db.Convert", "ObtainQuantity", "construct", "array_add", "array_GetValues",
         "array_construct", "fraction_lt", "fraction_GetValue", "fraction_construct", "fixed_construct"]
BOUNDS = {
    "quick": "values: all reals; fresh POSC database per run; 420 seeded cross-quantity-type unit pairs (one or two units per type, legacy spellings of the "
             "foreign unit included) x 18 operation kinds round-robin; derived operand pairs with different exponent vectors from shapes %s (160 seeded); "
             "exemptions (empty quantity, plain numbers) asserted to be accepted" % exprs.QUICK,
    "thorough": "all 191x190 ordered quantity-type pairs (first unit of each type) with one operation kind each (round-robin), plus 3000 seeded pairs over "
                "all units x all kinds, plus 1500 derived pairs",
}
BOUNDS_ALSO = '; also: derived operands asked for / copied into / converted to a table unit of another dimension (incl. one fitting only the leading factor); conversions to and from the unit of the Unknown type; EVERY pair of unit symbols of different quantity types that differ only in case x 7 routes; a refused AddUnit of the foreign unit just before the checked call'
BOUNDS = {k_: v_ + BOUNDS_ALSO for k_, v_ in BOUNDS.items()}
ASSUMPTIONS = ["A-FP", "'different dimension' is read as barril reads it: different quantity types for table units, different exponent vectors for derived operands",
               "the 'Unknown' quantity type is exempt by design and not asserted either way", "units/type error = UnitsError (incl. InvalidUnitError, "
               "InvalidOperationError, InvalidQuantityTypeError, ComposedUnitError), TypeError or ValueError"]
CHUNK = 8
LEGACY = {"lbmol": "lbmole", "Mcf/d": "1000ft3/d", "MMm3": "M(m3)", "lbmol/ft3": "lbmole/ft3", "N.s/m": "Ns/m", "gmol": "gmole"}


def items(tier, seed):
    rng = random.Random(seed)
    db = get_db("default")
    qts = [q for q in db.GetQuantityTypes() if q != "Unknown" and q in db.categories_to_quantity_types]
    out = []
    pairs = []
    if tier == "quick":
        for _ in range(420):
            a, b = rng.sample(qts, 2)
            pairs.append((a, rng.choice(db.GetUnits(a)), b, rng.choice(db.GetUnits(b))))
    else:
        for a in qts:
            for b in qts:
                if a != b:
                    pairs.append((a, db.GetUnits(a)[0], b, db.GetUnits(b)[0]))
        for _ in range(3000):
            a, b = rng.sample(qts, 2)
            pairs.append((a, rng.choice(db.GetUnits(a)), b, rng.choice(db.GetUnits(b))))
    # legacy spellings of a foreign unit
    for cur, leg in LEGACY.items():
        qt_b = db.GetQuantityType(cur)
        for a in rng.sample(qts, 4):
            if a != qt_b:
                pairs.append((a, db.GetUnits(a)[0], qt_b, leg))
    for i, (a, ua, b, ub) in enumerate(pairs):
        out.append({"k": KINDS[i % len(KINDS)], "qa": a, "ua": ua, "qb": b, "ub": ub})
    # derived operands with different exponent vectors
    names = exprs.QUICK if tier == "quick" else exprs.THOROUGH
    pool = {nm: exprs.instances(nm, n_units=2) for nm in names}
    nd = 260 if tier == "quick" else 2500
    tries = 0
    while sum(1 for c in out if c["k"].startswith("d_")) < nd and tries < nd * 20:
        tries += 1
        na, nb = rng.choice(names), rng.choice(names)
        A, B = rng.choice(pool[na]), rng.choice(pool[nb])
        if model_dims(A) == model_dims(B) or n_leaves(A) + n_leaves(B) > 5:
            continue
        out.append({"k": rng.choice(["d_add", "d_sub", "d_lt", "d_array_add", "d_q_add", "d_q_sub", "d_q_radd"]), "A": A, "B": B})
    # derived operands asked for / copied into a table unit of another dimension (also one that fits only their LEADING factor)
    other = {"length": ["km", "s", "kg"], "time": ["h", "m", "kg"], "mass": ["g", "m", "s"]}
    n_extra = 0
    for na in names:
        for A in pool[na]:
            d = model_dims(A)
            if n_leaves(A) < 2 or n_leaves(A) > 3 or not d or n_extra >= (90 if tier == "quick" else 900):
                continue
            lead = [b_["qt"] for b_ in exprs.BASIS.values() if _first_leaf(A)[1] in b_["units"]][0]
            for tu in other[lead]:
                tq = [b_["qt"] for b_ in exprs.BASIS.values() if tu in b_["units"]][0]
                if d == {tq: 1}:
                    continue
                for kk in ("d_GetValue_simple", "d_CreateCopy_value_unit", "d_array_GetValues_simple", "d_quantity_Convert_simple"):
                    out.append({"k": kk, "A": A, "B": ["leaf", tu, tq], "tu": tu})
                    n_extra += 1
    for i, (a, ua, b, ub) in enumerate(pairs[:60 if tier == "quick" else 2000]):
        out.append({"k": EXTRA_KINDS[i % 2], "qa": a, "ua": ua, "qb": b, "ub": ub})
    for i, (a, ua, b, ub) in enumerate(pairs[60:60 + (100 if tier == "quick" else 3000)]):
        out.append({"k": MORE_KINDS[i % len(MORE_KINDS)], "qa": a, "ua": ua, "qb": b, "ub": ub})
    for sq, reg, qreg in (("m/s", "m/s2", "acceleration linear"), ("kg/m", "kg/m2", "surface density"), ("m", "m2", "area"), ("ft", "ft2", "area")):
        for side in ("left", "right"):
            for cmp_ in ("lt", "gt", "le", "ge"):
                out.append({"k": "lt_same_unit_text", "sq": sq, "reg": reg, "side": side, "cmp": cmp_})
    # conversions to / from the unit of the Unknown quantity type, from a KNOWN quantity type (only the Unknown quantity type itself is exempt)
    for i, (a, ua, b, ub) in enumerate(pairs[:24 if tier == "quick" else 400]):
        for kk in ("to_unknown_unit", "from_unknown_unit", "array_to_unknown_unit"):
            out.append({"k": kk, "qa": a, "ua": ua, "qb": "Unknown", "ub": "<unknown>"})
    # unit symbols of DIFFERENT quantity types that differ only in case (s / S, Pa / pA, h / H ...), every group of the table, every route
    low = {}
    for u, inf in db.unit_to_unit_info.items():
        if inf.quantity_type in db.categories_to_quantity_types:
            low.setdefault(u.lower(), []).append((u, inf.quantity_type))
    for grp in low.values():
        for (u1, q1) in grp:
            for (u2, q2) in grp:
                if q1 != q2:
                    for kk in ("GetValue", "array_GetValues", "fixed_IndexAsScalar", "fixed_ChangingIndex", "db.Convert", "add", "CreateCopy"):
                        out.append({"k": kk, "qa": q1, "ua": u1, "qb": q2, "ub": u2})
    # history: a registration of the foreign unit under the operand's quantity type was REFUSED just before (the symbol exists elsewhere)
    for i, (a, ua, b, ub) in enumerate(pairs[:40 if tier == "quick" else 600]):
        out.append({"k": ("GetValue", "db.Convert", "construct", "array_GetValues")[i % 4], "qa": a, "ua": ua, "qb": b, "ub": ub, "rejected_addunit": True})
    for c in [c for c in out if c["k"] in ("d_add", "d_sub", "d_lt", "d_array_add")][::3]:
        c["np"] = True
    for k in ("exempt_empty", "exempt_number"):
        for u in ("m", "degC", "kg/m3"):
            out.append({"k": k, "ua": u})
    out.append({"k": "exempt_number", "ua": "m", "canary": True})
    rng.shuffle(out)
    return out


def _first_leaf(spec):
    if spec[0] == "leaf":
        return spec
    for s_ in spec[1:]:
        if isinstance(s_, list) and s_[0] != "num":
            r = _first_leaf(s_)
            if r is not None:
                return r
    return None


def inputs(cfg):
    if cfg["k"].startswith("d_"):
        return {"x%d" % i: "real" for i in range(n_leaves(cfg["A"]) + n_leaves(cfg["B"]))} | {"x": "real", "y": "real"}
    return {"x": "real", "y": "real"}


def _attempt(fn):
    from barril.units import UnitsError

    try:
        r = fn()
    except (core.Abort, core.HarnessError, core.Infeasible):
        raise
    except BaseException as e:  # noqa
        ok = isinstance(e, (UnitsError, TypeError, ValueError)) and not isinstance(e, ZeroDivisionError)
        return {"raised": type(e).__name__, "ok_class": ok}
    return {"raised": None, "returned": type(r).__name__}


def _battery(db, cfg, V):
    """valid operations whose answers must not depend on the failed call"""
    from barril.units import ObtainQuantity, Scalar

    out = []
    for qt, u in ((cfg.get("qa"), cfg.get("ua")), (cfg.get("qb"), cfg.get("ub"))):
        if not qt or cfg["k"] == "construct_after_override":
            continue
        base = db.GetUnits(qt)[0]
        s = Scalar(V["x"], u, qt)
        out.append((qt, u, base, s.GetValue(base), s.GetCategory(), s.GetUnit()))
    # a battery on a quantity type the configuration does not touch (construct_after_override re-registers the category named like cfg['qa'])
    qt_, u1, u2, u3, cat_ = ("length", "m", "cm", "km", "depth") if "length" not in (cfg.get("qa"), cfg.get("qb")) else ("mass", "kg", "g", "lbm", "mass")
    if cat_ == "mass" and "mass" in (cfg.get("qa"), cfg.get("qb")):
        qt_, u1, u2, u3, cat_ = ("time", "s", "min", "h", "time")
    s = Scalar(V["y"], u2, cat_)
    out.append((qt_, u2, u3, s.GetValue(u3), s.GetCategory(), s.GetUnit()))
    q = ObtainQuantity(u1, cat_)
    out.append((qt_, u1, u1, (Scalar(V["x"], u1, cat_) + Scalar(V["y"], u2, cat_)).GetValue(), q.GetCategory(), q.GetUnit()))
    return out


def run(cfg, V):
    from barril.basic.fraction import FractionValue
    from barril.units import Array, FixedArray, FractionScalar, ObtainQuantity, Quantity, Scalar

    db = fresh_posc_db()
    Quantity._EMPTY_QUANTITY = None
    k = cfg["k"]
    with pushed(db):
        if k.startswith("exempt"):
            s = Scalar(V["x"], cfg["ua"])
            if k == "exempt_empty":
                e = Scalar.CreateEmptyScalar(V["y"])
                r1, r2 = s + e, e - s
            else:
                r1, r2 = s + V["y"], V["y"] - s
            return {"exempt": True, "vals": (r1.GetValue(), r2.GetValue()), "units": (r1.GetUnit(), r2.GetUnit())}
        reg0 = snap_registry(db)  # (taken BEFORE a refused registration of the history kinds, so that what it leaves behind shows)
        if k == "lt_same_unit_text":
            # a derived scalar whose unit TEXT coincides with a registered unit of another dimension: (m/s)*(m/s) shows 'm/s2'
            x, y = V["x"], V["y"]
            a = Scalar(x, cfg["sq"]) * Scalar(1.0, cfg["sq"])
            b = Scalar(y, cfg["reg"])
            if cfg["side"] == "right":
                a, b = b, a
            import operator

            fn = lambda: getattr(operator, cfg["cmp"])(a, b)
            operands = [a, b]
        elif k.startswith("d_"):
            ctr = [0]
            a = build(cfg["A"], V, ctr)
            b = build(cfg["B"], V, ctr)
            if k == "d_array_add" or cfg.get("np"):
                from symx.shims import SymArray
                import numpy

                mk = (lambda v: SymArray([v]) if core.is_sym(v) else numpy.array([v], dtype=float)) if cfg.get("np") else (lambda v: [v])
                a = Array.CreateWithQuantity(a.GetQuantity(), mk(a.GetValue()))
                b = Array.CreateWithQuantity(b.GetQuantity(), mk(b.GetValue()))
            if k == "d_array_GetValues_simple":
                a = Array.CreateWithQuantity(a.GetQuantity(), (a.GetValue(), V["y"]))
            qa_, qb_ = a.GetQuantity(), b.GetQuantity()
            ops = {"d_q_add": lambda: qa_ + qb_, "d_q_sub": lambda: qa_ - qb_, "d_q_radd": lambda: qb_ + qa_, "d_add": lambda: a + b, "d_sub": lambda: a - b, "d_lt": lambda: a < b, "d_array_add": lambda: a + b,
                   "d_GetValue_simple": lambda: a.GetValue(cfg["tu"]), "d_CreateCopy_value_unit": lambda: a.CreateCopy(value=V["y"], unit=cfg["tu"]),
                   "d_array_GetValues_simple": lambda: a.GetValues(cfg["tu"]), "d_quantity_Convert_simple": lambda: a.GetQuantity().Convert(V["y"], cfg["tu"])}
            fn = ops[k]
            operands = [a, b]
        else:
            qa, ua, qb, ub = cfg["qa"], cfg["ua"], cfg["qb"], cfg["ub"]
            x, y = V["x"], V["y"]
            ua = db.GetInfo(qa, ua).unit
            a = Scalar(x, ua, qa)
            operands = [a]
            if cfg.get("rejected_addunit"):
                try:
                    db.AddUnit(qa, "a second " + ub, db.GetInfo(qb, ub).unit, lambda t: t * 2.0, lambda t: t / 2.0)
                    return {"first": {"raised": None, "returned": "AddUnit accepted a symbol that exists under another quantity type"}, "second": {}, "registry_same": False,
                            "operands_same": True, "bat0": [], "bat1": []}
                except RuntimeError:
                    pass
            if k in ("add", "sub", "radd", "lt", "gt", "le"):
                b = Scalar(y, db.GetInfo(qb, ub).unit, qb)
                operands.append(b)
                fn = {"add": lambda: a + b, "sub": lambda: a - b, "radd": lambda: b + a, "lt": lambda: a < b, "gt": lambda: a > b, "le": lambda: a <= b}[k]
            elif k in ("derived_construct", "derived_construct_rev"):
                from collections import OrderedDict

                if k == "derived_construct":
                    od = OrderedDict([(qa, [ua, 2]), (qb, [ua, -1])])  # ua is valid for the first category and foreign to the second
                else:
                    ubf = db.GetInfo(qb, ub).unit
                    od = OrderedDict([(qb, [ubf, 1]), (qa, [ubf, 1])])  # ub is valid first, then used under a foreign category
                fn = lambda: Quantity.CreateDerived(OrderedDict((c, list(ue)) for c, ue in od.items()))
            elif k in ("empty_array_add", "empty_array_sub"):
                ea, eb = Array([], ua, qa), Array((), db.GetInfo(qb, ub).unit, qb)
                operands = [ea, eb]
                fn = (lambda: ea + eb) if k.endswith("add") else (lambda: eb - ea)
            elif k == "construct_after_override":
                Scalar(x, ua, qa)  # warms the quantity cache for (category, unit)
                db.AddCategory(qa, qb, override=True)  # the category now belongs to another quantity type
                fn = lambda: Scalar(y, ua, qa)
            elif k == "db.Convert.exp":
                fn = lambda: db.Convert(qa, [(ua, 2)], [(db.GetInfo(qb, ub).unit, 2)], x)
            elif k == "derived.GetValue.exp":
                sq2 = Scalar(x, ua, qa) * Scalar(y, ua, qa)
                operands = [sq2]
                fn = lambda: sq2.GetValue([(db.GetInfo(qb, ub).unit, 2)])
            elif k == "to_unknown_unit":
                fn = lambda: (a.GetValue("<unknown>"), db.Convert(qa, ua, "<unknown>", x))
            elif k == "from_unknown_unit":
                fn = lambda: db.Convert(qa, "<unknown>", ua, x)
            elif k == "array_to_unknown_unit":
                aa = Array([x, y], ua, qa)
                operands = [aa]
                fn = lambda: aa.GetValues("<unknown>")
            elif k == "fixed_IndexAsScalar":
                fa_ = FixedArray(2, [x, y], ua, qa)
                operands = [fa_]
                fn = lambda: fa_.IndexAsScalar(0, ObtainQuantity(ub, qb))
            elif k == "fixed_ChangingIndex":
                fa_ = FixedArray(2, [x, y], ua, qa)
                operands = [fa_]
                fn = lambda: fa_.ChangingIndex(0, Scalar(y, ub, qb))
            elif k == "GetValue":
                fn = lambda: a.GetValue(ub)
            elif k == "CreateCopy":
                fn = lambda: a.CreateCopy(unit=ub)
            elif k == "db.Convert":
                fn = lambda: db.Convert(qa, ua, ub, x)
            elif k == "ObtainQuantity":
                fn = lambda: ObtainQuantity(ub, qa)
            elif k == "construct":
                fn = lambda: Scalar(x, ub, qa)
            elif k == "array_add":
                aa, ab = Array([x, y], ua, qa), Array([y, x], db.GetInfo(qb, ub).unit, qb)
                operands = [aa, ab]
                fn = lambda: aa + ab
            elif k == "array_GetValues":
                aa = Array((x, y), ua, qa)
                operands = [aa]
                fn = lambda: aa.GetValues(ub)
            elif k == "array_construct":
                fn = lambda: Array([x, y], ub, qa)
            elif k == "fixed_construct":
                fn = lambda: FixedArray(2, qa, [x, y], ub)
            elif k == "fraction_lt":
                fa, fb = FractionScalar(FractionValue(x, (1, 2)), ua, qa), FractionScalar(y, db.GetInfo(qb, ub).unit, qb)
                operands = [fa, fb]
                fn = lambda: fa < fb
            elif k == "fraction_GetValue":
                fa = FractionScalar(FractionValue(x, (1, 2)), ua, qa)
                operands = [fa]
                fn = lambda: fa.GetValue(ub)
            elif k == "fraction_construct":
                fn = lambda: FractionScalar(x, ub, qa)
            else:
                raise KeyError(k)
        snaps0 = [snap_value(o) for o in operands]
        bat0 = _battery(db, cfg, V)
        reg0 = snap_registry(db) if k == "construct_after_override" else reg0  # (that kind registers before the failing call)
        reg_mid = snap_registry(db)
        first = _attempt(fn)
        second = _attempt(fn)
        reg1 = snap_registry(db)
        snaps1 = [snap_value(o) for o in operands]
        bat1 = _battery(db, cfg, V)
        return {"first": first, "second": second, "registry_same": reg0 == reg_mid == reg1, "operands_same": snaps0 == snaps1, "bat0": bat0, "bat1": bat1}


def props(cfg, T, obs):
    if isinstance(obs, Raised):
        if obs.isa(ZeroDivisionError):
            return []  # zero divisor while building a derived operand
        return [("building operands / the valid battery does not raise", False)]
    if obs.get("exempt"):
        x, y = T["x"], T["y"]
        P = [("dimensionless operand / plain number is accepted and keeps the unit", obs["units"] == (cfg["ua"], cfg["ua"])),
             ("value is x+y resp. y-x", z3.And(approx(obs["vals"][0], x + y), approx(obs["vals"][1], y - x)))]
        if cfg.get("canary"):
            P.append(("canary:x+y ~ x", approx(obs["vals"][0], x)))
        return P
    P = [("the incompatible operation raises (never returns a value)", obs["first"]["raised"] is not None),
         ("the error is a units/type error", bool(obs["first"].get("ok_class", False))),
         ("repeating the rejected call is rejected again in the same way", obs["second"] == obs["first"]),
         ("the unit database reports the same registry before and after", bool(obs["registry_same"])),
         ("operands unchanged", bool(obs["operands_same"]))]
    same = len(obs["bat0"]) == len(obs["bat1"])
    cs = [z3.BoolVal(same)]
    if same:
        for r0, r1 in zip(obs["bat0"], obs["bat1"]):
            cs.append(z3.BoolVal(r0[:3] == r1[:3] and r0[4:] == r1[4:]))
            cs.append(core.term(r0[3]) == core.term(r1[3]))
    P.append(("later valid operations behave as if the failure had not happened", z3.And(*cs)))
    return P


def finding_key(cfg, name):
    if cfg["k"] == "lt_same_unit_text":
        return "%s (%s)*(%s) vs %s on the %s :: %s" % (cfg["cmp"], cfg["sq"], cfg["sq"], cfg["reg"], cfg["side"], name)
    if cfg["k"].startswith("d_"):
        return "%s%s %s %s :: %s" % (cfg["k"], " numpy" if cfg.get("np") else "", spec_str(cfg["A"]), spec_str(cfg["B"]), name)
    return "%s %s[%s] vs %s[%s] :: %s" % (cfg["k"], cfg.get("ua"), cfg.get("qa"), cfg.get("ub"), cfg.get("qb"), name)
