"""Operand shapes for C03/C04/C05/C10/C20: type-level templates over the basis L, T, M, instantiated
with table units and categories. Operands are always built by the REAL barril operators."""
import itertools
import random

from .common import BASIS

# type-level templates: nested lists with slots "L", "T", "M" (optionally "L:depth" to force a category)
TEMPLATES = {
    "len": "L",
    "time": "T",
    "mass": "M",
    "area": ["mul", "L", "L"],
    "vel": ["div", "L", "T"],
    "freq": ["div", ["num", 1.0], "T"],
    "area_cats": ["mul", "L:depth", "L:length"],
    "len_mix": ["div", ["mul", "L", "L"], "L"],
    "mom": ["div", ["div", "L", "T"], "M"],
    "lm_t": ["div", ["mul", "L", "M"], "T"],
    "vol": ["mul", ["mul", "L", "L"], "L"],
    "vol_r": ["mul", "L", ["mul", "L", "L"]],
    "acc": ["div", ["div", "L", "T"], "T"],
    "dens": ["div", "M", ["mul", ["mul", "L", "L"], "L"]],
    "freq2": ["div", ["num", 1.0], ["mul", "T", "T"]],
    "pow_area": ["pow", "L", 2],
    "pow_vol": ["pow", "L", 3],
    "inv_area": ["div", ["num", 1.0], ["mul", "L", "L"]],
    # the same dimensions with the factors in another order
    "lt": ["mul", "L", "T"],
    "tl": ["mul", "T", "L"],
    "vel_b": ["mul", ["div", ["num", 1.0], "T"], "L"],
    "lm_t_b": ["mul", "M", ["div", "L", "T"]],
    # a factor that cancels across two categories of one quantity type while other factors survive
    "len_cancel": ["div", ["mul", "L", "T:time"], "T:date"],
    "vel_cancel": ["div", ["div", ["mul", "L", "T:time"], "T:date"], "T"],
    "area_cancel": ["mul", ["div", "L:length", "L:depth"], ["mul", "L", "L"]],
    # two categories of one quantity type with opposite exponents of DIFFERENT size
    "len_cats_div": ["div", ["mul", "L:length", "L:length"], "L:depth"],
    "inv_len_cats": ["div", "L:length", ["mul", "L:depth", "L:depth"]],
    # a unit with an OFFSET in the denominator: only its scale counts under an exponent
    "len_per_temp": ["div", "L", "K"],
}
# groups of templates with equal dimensions (operands of a + / - may come from different members)
EQUAL_DIMS = [["lt", "tl"], ["vel", "vel_b"], ["area", "pow_area", "area_cats"], ["vol", "vol_r", "pow_vol"], ["len", "len_mix", "len_cancel", "len_cats_div"], ["lm_t", "lm_t_b"], ["vel", "vel_cancel"], ["area", "area_cancel"]]
QUICK = ["len", "time", "area", "vel", "freq", "area_cats", "len_mix", "mom", "pow_area", "vol", "lt", "tl", "vel_b", "len_cancel", "vel_cancel", "area_cancel", "len_cats_div", "inv_len_cats", "len_per_temp"]
THOROUGH = list(TEMPLATES)


def slots(t):
    if isinstance(t, str):
        return [t]
    if t[0] == "num":
        return []
    if t[0] == "pow":
        return slots(t[1])
    return slots(t[1]) + slots(t[2])


def instantiate(t, units, it=None):
    """units: list of (unit, category) per slot in order"""
    if it is None:
        it = iter(units)
    if isinstance(t, str):
        u, c = next(it)
        return ["leaf", u, c]
    if t[0] == "num":
        return list(t)
    if t[0] == "pow":
        return ["pow", instantiate(t[1], units, it), t[2]]
    return [t[0], instantiate(t[1], units, it), instantiate(t[2], units, it)]


def slot_choices(slot, n_units, with_cats):
    kind, _, cat = slot.partition(":")
    b = BASIS[kind]
    us = b["units"][:n_units]
    if cat:
        return [(u, cat) for u in us]
    if with_cats:
        return [(u, c) for u in us for c in b["cats"]]
    return [(u, b["cats"][0]) for u in us]


def instances(name, n_units=3, with_cats=False, limit=None, rng=None):
    t = TEMPLATES[name]
    ch = [slot_choices(s, n_units, with_cats) for s in slots(t)]
    allc = list(itertools.product(*ch))
    if limit is not None and len(allc) > limit:
        allc = (rng or random).sample(allc, limit)
    return [instantiate(t, list(c)) for c in allc]
