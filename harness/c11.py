"""C11 - size invariants: FixedArray len(values) == dimension >= 2, Curve image/domain lengths.
Symbolic: dimension and container length as UNBOUNDED integers (SymInt / SymSeq) for the checking logic;
element amounts as reals where real lists are needed (dimension -1..6, lengths 0..6 enumerated)."""
import pickle
import random

import z3

from symx import core
from symx.check import Raised
from symx.core import SymInt, SymSeq, approx, term

PID = "C11"
FUNCTIONS = ["FixedArray.__init__/_InternalCreateWithQuantity/CheckValues/CreateCopy/CreateEmptyArray/ChangingIndex/IndexAsScalar/__reduce__",
             "AbstractValueWithQuantityObject.CreateWithQuantity/CreateCopy", "Array._DoOperation (FixedArray operands)",
             "Curve.__init__/SetImage/SetDomain/_CheckImageAndDomainLength and the image/domain property setters"]
BOUNDS = {
    "quick": "dimension and length: ALL integers (length >= 0) for FixedArray construction routes, CreateWithQuantity, CreateCopy(values) and for the "
             "Curve step (one SetImage/SetDomain from an arbitrary invariant-satisfying curve; two steps as a sanity chain); real lists: "
             "dimension -1..5 x length 0..5 with symbolic real elements for constructor forms, CreateEmptyArray, arithmetic, pickling, ChangingIndex, IndexAsScalar",
    "thorough": "same with real lists up to dimension 7 / length 7 and three-step Curve chains",
}
BOUNDS_ALSO = '; also: ChangingIndex across units related by an offset (5 unit pairs x dimension 2,3 x index x container); Curves over nested containers (list of points, 2-D ndarray) through 5 entry points'
BOUNDS = {k_: v_ + BOUNDS_ALSO for k_, v_ in BOUNDS.items()}
ASSUMPTIONS = ["module-global len shim returns the symbolic length of a SymSeq", "SymInt payload differential: no observable equals the payload",
               "A-FP for element amounts", "Curve: one inductive step from an arbitrary state satisfying len(image)==len(domain) covers call sequences of any length"]
CHUNK = 20
NEEDS_CANARY = True


def items(tier, seed):
    out = [{"k": "ctor"}, {"k": "ctor_q"}, {"k": "cwq", "dim": True}, {"k": "cwq", "dim": False}, {"k": "empty"}]
    for d0 in (2, 3, 5):
        out.append({"k": "copy", "d0": d0})
    for form in ("SetImage", "SetDomain", "image=", "domain=", "SetValues_mage"):
        out.append({"k": "curve", "form": form})
        for form2 in ("SetImage", "SetDomain", "SetValues_mage"):
            out.append({"k": "curve2", "form": form, "form2": form2})
    out.append({"k": "curve_ctor"})
    # nested containers (a list of points, a 2-D numpy array): the LENGTH is the number of rows, not the number of numbers
    for shape in ("tuples", "numpy2d"):
        for rows in (2, 3):
            for other in (rows, rows * 2, rows + 1):
                for via in ("ctor", "SetDomain", "SetImage", "domain=", "image="):
                    out.append({"k": "curve_nested", "shape": shape, "rows": rows, "other": other, "via": via})
    hi = 5 if tier == "quick" else 7
    for d in range(-1, hi + 1):
        for n in range(0, hi + 1):
            for route in ("list", "tuple", "quantity", "cwq", "empty_values", "points2", "points3", "points_cwq"):
                out.append({"k": "real", "route": route, "d": d, "n": n})
        out.append({"k": "real", "route": "category", "d": d, "n": 0})
        out.append({"k": "real", "route": "empty", "d": d, "n": 0})
    for d in range(2, hi + 1):
        for n in range(0, hi + 1):
            out.append({"k": "arith", "d": d, "n": n, "op": "add_array"})
            out.append({"k": "copyvals", "d": d, "n": n})
            out.append({"k": "copyvals", "d": d, "n": n, "noq": True})
        for op in ("add_fixed", "mul_num", "rmul_num", "div_fixed", "sub_num"):
            out.append({"k": "arith", "d": d, "n": d, "op": op})
        out.append({"k": "pickle", "d": d})
        for i in range(-1, d + 1):
            out.append({"k": "chidx", "d": d, "i": i})
            out.append({"k": "chidx", "d": d, "i": i, "cont": "numpy"})
            out.append({"k": "chidx", "d": d, "i": i, "cont": "tuple"})
    # arrays whose quantity came out of arithmetic (derived, dimensionless, empty): ChangingIndex with an amount of that same quantity
    for src_kind in ("squared", "ratio", "self_ratio", "empty"):
        for cont in ("list", "numpy", "tuple"):
            for i in (0, 1):
                out.append({"k": "chidx_derived", "d": 2, "i": i, "src": src_kind, "cont": cont})
    # units related by an offset: re-expressing the untouched elements is not a multiplication
    for qt, u, v in (("temperature", "degC", "K"), ("temperature", "degF", "degC"), ("temperature", "K", "degF"), ("pressure", "psig", "Pa"), ("pressure", "bar", "bar(g)")):
        for d in (2, 3):
            for i in range(d):
                out.append({"k": "chidx_affine", "d": d, "i": i, "qt": qt, "u": u, "v": v, "cont": ("list", "numpy", "tuple")[(d + i) % 3]})
    out[0]["canary"] = True
    random.Random(seed).shuffle(out)
    return out


def inputs(cfg):
    k = cfg["k"]
    if k in ("ctor", "ctor_q", "cwq", "empty"):
        return {"D": "int", "L": "int"}
    if k == "copy":
        return {"L": "int"}
    if k in ("curve", "curve2", "curve_ctor"):
        return {"n": "int", "k": "int", "j": "int"}
    if k == "curve_nested":
        return {"x%d" % i: "real" for i in range(4)}
    n = max(cfg.get("n", 0), cfg.get("d", 0), 1) + 1
    return {"x%d" % i: "real" for i in range(n)} | {"y": "real"}


def precondition(cfg, T):
    cs = [T[n] >= 0 for n in ("L", "n", "k", "j") if n in T]
    cs += [T[n] <= 50 for n in ("L", "n", "k", "j") if n in T] if False else []
    return z3.And(*cs) if cs else z3.BoolVal(True)


def _seq(n):
    """a container of length n: symbolic stand-in, or a real list on replay"""
    if isinstance(n, SymInt):
        return SymSeq(n)
    if n > 100000:
        raise core.HarnessError("replay length too large")
    return [0.0] * n


def _len(o):
    from symx.shims import sym_len

    return sym_len(o)


def _fa_obs(fa):
    return {"dim": fa.dimension, "len": _len(fa.GetValues()), "cls": type(fa).__name__}


def run(cfg, V):
    from barril.curve.curve import Curve
    from barril.units import Array, FixedArray, ObtainQuantity, Scalar

    k = cfg["k"]
    q = ObtainQuantity("m", "length")
    if k == "ctor":
        return _fa_obs(FixedArray(V["D"], _seq(V["L"]), "m"))
    if k == "ctor_q":
        return _fa_obs(FixedArray(V["D"], q, _seq(V["L"])))
    if k == "cwq":
        if cfg["dim"]:
            return _fa_obs(FixedArray.CreateWithQuantity(q, _seq(V["L"]), dimension=V["D"]))
        return _fa_obs(FixedArray.CreateWithQuantity(q, _seq(V["L"])))
    if k == "empty":
        return _fa_obs(FixedArray.CreateEmptyArray(V["D"], _seq(V["L"])))
    if k == "copy":
        src_vals = [1.0] * cfg["d0"]
        src = FixedArray(cfg["d0"], src_vals, "m")
        try:
            c = src.CreateCopy(values=_seq(V["L"]))
        except ValueError as e:
            return {"rejected": True, "src_ok": src.GetValues() is src_vals and src.dimension == cfg["d0"] and src_vals == [1.0] * cfg["d0"]}
        return _fa_obs(c) | {"rejected": False}
    if k == "curve_nested":
        import numpy

        rows, other = cfg["rows"], cfg["other"]
        xs = [V["x%d" % i] for i in range(4)]
        pts = [(xs[i % 4], xs[(i + 1) % 4]) for i in range(rows)]
        nested = Array("length", pts, "m") if cfg["shape"] == "tuples" else Array(numpy.array([[float(i), float(i + 1)] for i in range(rows)]), "m")
        flat_ok = Array([xs[i % 4] for i in range(rows)], "s")
        flat_new = Array([xs[i % 4] for i in range(other)], "s")
        try:
            if cfg["via"] == "ctor":
                c = Curve(nested, flat_new)
            else:
                c = Curve(nested, flat_ok) if "omain" in cfg["via"] else Curve(Array([xs[i % 4] for i in range(other)], "m"), flat_new)
                new = flat_new if "omain" in cfg["via"] else nested
                {"SetDomain": lambda: c.SetDomain(new), "SetImage": lambda: c.SetImage(new), "domain=": lambda: setattr(c, "domain", new), "image=": lambda: setattr(c, "image", new)}[cfg["via"]]()
        except ValueError:
            return {"rejected": True}
        return {"rejected": False, "li": len(c.GetImage().GetValues()), "ld": len(c.GetDomain().GetValues())}
    if k in ("curve", "curve2", "curve_ctor"):
        if k == "curve_ctor":
            c = Curve(Array(_seq(V["n"]), "m"), Array(_seq(V["k"]), "s"))
            return {"li": _len(c.GetImage().GetValues()), "ld": _len(c.GetDomain().GetValues())}
        img, dom = Array(_seq(V["n"]), "m"), Array(_seq(V["n"]), "s")
        c = Curve(img, dom)
        steps = [(cfg["form"], V["k"])] + ([(cfg["form2"], V["j"])] if k == "curve2" else [])
        log = []
        for form, ln in steps:
            new = Array(_seq(ln), "m" if "mage" in form else "s")  # ('SetValues' is the deprecated alias of SetImage)
            before = (c.GetImage(), c.GetDomain())
            try:
                if form == "SetImage":
                    c.SetImage(new)
                elif form == "SetDomain":
                    c.SetDomain(new)
                elif form == "SetValues_mage":
                    c.SetValues(new)
                elif form == "image=":
                    c.image = new
                else:
                    c.domain = new
                acc = True
            except ValueError:
                acc = False
            after = (c.GetImage(), c.GetDomain())
            which = 0 if "mage" in form else 1
            log.append({"accepted": acc, "ln": ln, "prev_len": _len(before[which ^ 1].GetValues()),
                        "unchanged": after[0] is before[0] and after[1] is before[1],
                        "installed": after[which] is new and after[which ^ 1] is before[which ^ 1]})
        return {"li": _len(c.GetImage().GetValues()), "ld": _len(c.GetDomain().GetValues()), "log": log, "glen": c.GetLength()}
    # ---- real lists ---------------------------------------------------------------------------
    d, n = cfg.get("d"), cfg.get("n")
    xs = [V["x%d" % i] for i in range(max(n or 0, d or 0, 1) + 1)]
    if k == "real":
        route = cfg["route"]
        vals = xs[:n]
        if route == "list":
            fa = FixedArray(d, list(vals), "m")
        elif route == "tuple":
            fa = FixedArray(d, "length", tuple(vals), "m")
        elif route == "quantity":
            fa = FixedArray(d, q, list(vals))
        elif route == "cwq":
            fa = FixedArray.CreateWithQuantity(q, list(vals), dimension=d)
        elif route == "empty_values":
            fa = FixedArray.CreateEmptyArray(d, list(vals))
        elif route in ("points2", "points3"):
            w = 2 if route == "points2" else 3
            fa = FixedArray(d, "length", [tuple(vals[(j + t) % max(len(vals), 1)] if vals else 0.0 for t in range(w)) for j in range(n)], "m")
        elif route == "points_cwq":
            fa = FixedArray.CreateWithQuantity(q, [(v, v) for v in vals], dimension=d)
        elif route == "category":
            fa = FixedArray(d, "length")
        else:
            fa = FixedArray.CreateEmptyArray(d)
        return _fa_obs(fa)
    src_vals = list(xs[:d])
    if cfg.get("cont") == "numpy":
        import numpy
        from symx.shims import SymArray

        src_vals = SymArray(src_vals) if core.is_sym(src_vals[0]) else numpy.array(src_vals, dtype=float)
    elif cfg.get("cont") == "tuple":
        src_vals = tuple(src_vals)
    if k == "chidx_derived":
        ones = FixedArray(2, [1.0, 1.0], "m")
        base = FixedArray(2, src_vals, "m")
        src = {"squared": lambda: base * ones, "ratio": lambda: base / FixedArray(2, [1.0, 1.0], "s"), "self_ratio": lambda: base / ones,
               "empty": lambda: FixedArray.CreateEmptyArray(2, src_vals)}[cfg["src"]]()
        i = cfg["i"]
        own = src.IndexAsScalar(1 - i)  # an amount of the array's own (derived) quantity
        r1 = src.ChangingIndex(i, own)
        # (a plain number is read as an amount in the array's unit; an array WITHOUT unit refuses it loudly - that route is not part of the claim)
        r3 = src.ChangingIndex(i, Scalar.CreateWithQuantity(src.GetQuantity(), V["y"]), use_value_unit=False)
        r2 = src.ChangingIndex(i, V["y"]) if src.GetUnit() else r3
        # (a plain number is read in the array's UNIT: for 'm2' that resolves to the category 'area', so only the unit is compared on that route)
        return {"derived": [(list(r.GetValues()), r.GetQuantity() == src.GetQuantity() if r is not r2 else r.GetUnit() == src.GetUnit(), r.dimension, type(r).__name__) for r in (r1, r2, r3)],
                "src_vals": list(src.GetValues())}
    if k == "chidx_affine":
        src = FixedArray(d, src_vals, cfg["u"])
        amount = Scalar(V["y"], cfg["v"])
        r1 = src.ChangingIndex(cfg["i"], amount)
        r2 = src.ChangingIndex(cfg["i"], (V["y"], cfg["v"]))
        r3 = src.ChangingIndex(cfg["i"], amount, use_value_unit=False)
        return {"affine": [(list(r.GetValues()), r.GetUnit(), r.dimension) for r in (r1, r2, r3)], "src_vals": list(src.GetValues()), "src_unit": src.GetUnit()}
    snap = list(src_vals)
    src = FixedArray(d, src_vals, "m")

    def src_ok():
        from .common import _atom

        return src.GetValues() is src_vals and len(src_vals) == d and [_atom(a) for a in src_vals] == [_atom(a) for a in snap] and src.dimension == d and src.GetUnit() == "m"

    try:
        if k == "arith":
            op = cfg["op"]
            if op == "add_array":
                r = src + Array(list(xs[:n]), "cm")
            elif op == "add_fixed":
                r = src + FixedArray(d, list(xs[:d]), "cm")
            elif op == "div_fixed":
                r = src / FixedArray(d, [2.0] * d, "s")
            elif op == "mul_num":
                r = src * V["y"]
            elif op == "rmul_num":
                r = 2.0 * src
            else:
                r = src - V["y"]
        elif k == "copyvals" and cfg.get("noq"):
            src0 = FixedArray.CreateEmptyArray(d, list(xs[:d]))  # no category, no unit
            r = src0.CreateCopy(values=list(xs[:n]), unit="m")
        elif k == "copyvals":
            r = src.CreateCopy(values=list(xs[:n]))
        elif k == "pickle":
            r = pickle.loads(pickle.dumps(src))
        elif k == "chidx":
            r = src.ChangingIndex(cfg["i"], Scalar(V["y"], "cm"))
            r2 = src.ChangingIndex(cfg["i"], V["y"])
            r3 = src.ChangingIndex(cfg["i"], (V["y"], "cm"))
            s = src.IndexAsScalar(cfg["i"])
            s_cm = src.IndexAsScalar(cfg["i"], ObtainQuantity("cm", "length"))
            return _fa_obs(r) | {"src_ok": src_ok(), "vals": list(r.GetValues()), "unit": r.GetUnit(), "r2": _fa_obs(r2) | {"vals": list(r2.GetValues()), "unit": r2.GetUnit()},
                                 "r3": _fa_obs(r3) | {"vals": list(r3.GetValues()), "unit": r3.GetUnit()}, "ias": (s.GetValue(), s.GetUnit()), "ias_cm": (s_cm.GetValue(), s_cm.GetUnit())}
    except (ValueError, IndexError) as e:
        return {"rejected": type(e).__name__, "src_ok": src_ok()}
    return _fa_obs(r) | {"src_ok": src_ok(), "rejected": False, "eq_src": (r == src) if k == "pickle" else None}


def _no_payload(obs):
    bad = []

    def walk(o):
        if isinstance(o, SymInt):
            return
        if isinstance(o, bool):
            return
        if isinstance(o, int) and o == core.SYMINT_PAYLOAD[0]:
            bad.append(o)
        elif isinstance(o, dict):
            for v in o.values():
                walk(v)
        elif isinstance(o, (list, tuple)):
            for v in o:
                walk(v)

    walk(obs)
    return not bad


def _iv(x):
    return x.expr if isinstance(x, SymInt) else z3.IntVal(int(x))


def _inv(obs):
    return z3.And(_iv(obs["dim"]) == _iv(obs["len"]), _iv(obs["dim"]) >= 2)


def props(cfg, T, obs):
    k = cfg["k"]
    P = []
    if k in ("ctor", "ctor_q", "cwq", "empty"):
        D, L = T["D"], T["L"]
        should = z3.And(D >= 2, L == D) if (k != "cwq" or cfg["dim"]) else (L >= 2)
        if isinstance(obs, Raised):
            return [("rejected with ValueError", obs.isa(ValueError)), ("rejected only when the request would break the invariant", z3.Not(should))]
        P = [("len(values) == dimension >= 2", _inv(obs)), ("accepted only when dimension>=2 and len==dimension", should),
             ("no payload leak", _no_payload(obs)), ("is a FixedArray", obs["cls"] == "FixedArray")]
        if k != "cwq" or cfg["dim"]:
            P.append(("dimension is the requested one", _iv(obs["dim"]) == D))
        if cfg.get("canary"):
            P.append(("canary:every accepted FixedArray has dimension 3", _iv(obs["dim"]) == 3))
        return P
    if k == "copy":
        if isinstance(obs, Raised):
            return [("CreateCopy(values) raises only ValueError", False)]
        L = T["L"]
        if obs["rejected"]:
            return [("rejected only for a wrong length", L != cfg["d0"]), ("source unchanged after rejection", bool(obs["src_ok"]))]
        return [("len(values) == dimension >= 2", _inv(obs)), ("accepted only for the source's dimension", L == cfg["d0"]),
                ("dimension kept", _iv(obs["dim"]) == cfg["d0"])]
    if k == "curve_nested":
        if isinstance(obs, Raised):
            return [("a Curve step raises only ValueError", False)]
        same = cfg["rows"] == cfg["other"]
        return [("a Curve holding nested containers accepts a step exactly when the numbers of ROWS match", obs["rejected"] == (not same)),
                ("image and domain have equal length", obs["rejected"] or obs["li"] == obs["ld"])]
    if k == "curve_ctor":
        if isinstance(obs, Raised):
            return [("ValueError", obs.isa(ValueError)), ("rejected only for different lengths", T["n"] != T["k"])]
        return [("image and domain have equal length", _iv(obs["li"]) == _iv(obs["ld"])), ("accepted only for equal lengths", T["n"] == T["k"])]
    if k in ("curve", "curve2"):
        if isinstance(obs, Raised):
            return [("Set* raises only ValueError (caught)", False)]
        P = [("image and domain have equal length after the step(s)", _iv(obs["li"]) == _iv(obs["ld"])), ("no payload leak", _no_payload(obs)),
             ("GetLength is that length", _iv(obs["glen"]) == _iv(obs["li"]))]
        for i, st in enumerate(obs["log"]):
            same = _iv(st["ln"]) == _iv(st["prev_len"])
            if st["accepted"]:
                P.append(("step %d accepted only for a matching length and installs the new array" % i, z3.And(same, z3.BoolVal(bool(st["installed"])))))
            else:
                P.append(("step %d rejected only for a different length and leaves the curve unchanged" % i, z3.And(z3.Not(same), z3.BoolVal(bool(st["unchanged"])))))
        return P
    # ---- real lists
    d, n = cfg.get("d"), cfg.get("n")
    if k == "real":
        should = d >= 2 and (n == d or cfg["route"] in ("category", "empty"))
        if isinstance(obs, Raised):
            return [("rejected with ValueError", obs.isa(ValueError)), ("rejected only when the request would break the invariant", not should)]
        return [("len(values) == dimension >= 2", _inv(obs)), ("accepted only when valid", should), ("dimension is the requested one", obs["dim"] == d)]
    if isinstance(obs, Raised):
        return [("operation raises only ValueError/IndexError", False)]
    if k == "chidx_derived":
        xs = [T["x%d" % j] for j in range(2)]
        i = cfg["i"]
        wants = [[xs[1 - i] if j == i else xs[j] for j in range(2)], [T["y"] if j == i else xs[j] for j in range(2)], [T["y"] if j == i else xs[j] for j in range(2)]]
        return [("ChangingIndex on an array whose quantity came out of arithmetic returns a FixedArray of the same quantity that differs only at the index",
                 z3.And(*[z3.And(z3.BoolVal(bool(sameq) and dim == 2 and cls == "FixedArray" and len(vals) == 2), *[approx(a, b) for a, b in zip(vals, w)])
                          for (vals, sameq, dim, cls), w in zip(obs["derived"], wants)]))]
    if k == "chidx_affine":
        from .common import get_db, oracle_convert

        db = get_db("default")
        xs = [T["x%d" % j] for j in range(d)]
        y, i, qt, u, v = T["y"], cfg["i"], cfg["qt"], cfg["u"], cfg["v"]
        want_v = [oracle_convert(db, qt, u, v, x) for x in xs]
        want_v[i] = y
        want_u = list(xs)
        want_u[i] = oracle_convert(db, qt, v, u, y)
        (a1, u1, d1), (a2, u2, d2), (a3, u3, d3) = obs["affine"]
        return [("ChangingIndex across units related by an offset: every other element is the SAME physical amount re-expressed, the index is the supplied amount",
                 z3.And(z3.BoolVal((u1, u2, u3) == (v, v, u) and d1 == d2 == d3 == d and len(a1) == len(a2) == len(a3) == d),
                        *[approx(a, b) for a, b in zip(a1, want_v)], *[approx(a, b) for a, b in zip(a2, want_v)], *[approx(a, b) for a, b in zip(a3, want_u)])),
                ("the source array is untouched", obs["src_unit"] == u and all(z3.is_true(z3.simplify(term(a) == b)) for a, b in zip(obs["src_vals"], xs)))]
    if obs.get("rejected"):
        ok_to_reject = (k == "arith" and cfg["op"] == "add_array" and n != d) or (k == "copyvals" and n != d) or (k == "chidx" and not (-d <= cfg["i"] < d))
        return [("rejected only when the request would break the invariant", ok_to_reject), ("source unchanged after rejection", bool(obs["src_ok"])),
                ("ValueError for size mismatches", obs["rejected"] == "ValueError" or k == "chidx")]
    P = [("len(values) == dimension >= 2", _inv(obs)), ("source unchanged", bool(obs["src_ok"])), ("result is a FixedArray", obs["cls"] == "FixedArray"),
         ("dimension kept", obs["dim"] == d)]
    if k == "arith" and cfg["op"] == "add_array":
        P.append(("operands of different lengths are rejected", n == d))
    if k == "copyvals":
        P.append(("copy with values of another length is rejected", n == d))
    if k == "pickle":
        P.append(("pickle round trip equal", bool(obs["eq_src"])))
    if k == "chidx":
        i = cfg["i"] % d
        xs = [T["x%d" % j] for j in range(d)]
        y = T["y"]
        for name, r, unit, conv_src, at in (("scalar", obs, "cm", 100, y), ("number", obs["r2"], "m", 1, y), ("tuple", obs["r3"], "cm", 100, y)):
            want = [x * conv_src for x in xs]
            want[i] = at
            ok = [approx(a, b) for a, b in zip(r["vals"], want)]
            P.append(("ChangingIndex(%s): only the index changes, to the supplied amount" % name,
                      z3.And(*ok, z3.BoolVal(r["unit"] == unit and len(r["vals"]) == d and r["dim"] == d))))
        P.append(("IndexAsScalar(i) is the i-th amount", z3.And(term(obs["ias"][0]) == xs[i], z3.BoolVal(obs["ias"][1] == "m"))))
        P.append(("IndexAsScalar(i, quantity) is the i-th amount in the requested unit", z3.And(approx(obs["ias_cm"][0], xs[i] * 100), z3.BoolVal(obs["ias_cm"][1] == "cm"))))
    return P


def finding_key(cfg, name):
    return "%s :: %s" % (" ".join("%s=%s" % (k, v) for k, v in sorted(cfg.items()) if k != "canary"), name)
