"""C02 - all conversion routes agree with the database's float conversion and keep category/type.
Symbolic: every amount (container elements included) and the category default. Enumerated: route,
container kind, length <= 3, unit pair."""
import random

import z3

from symx.check import Raised
from symx.core import approx, term
from symx.shims import SymArray

from .common import fresh_posc_db, get_db, oracle_convert, pushed, seeded_sample, slope_of, zpow

PID = "C02"
FUNCTIONS = ["Scalar.GetValue/GetAbstractValue", "AbstractValueWithQuantityObject.CreateCopy", "barril.units.ChangeScalars",
             "Quantity.ConvertScalarValue (cached _tobase fast path)", "Quantity.Convert", "UnitDatabase.Convert float/int/list/tuple branches",
             "UnitDatabase._ConvertWithExp (math.pow shimmed)", "ConvertNumpyArray (additional conversion type)", "Array.GetAbstractValue incl. list-of-tuples",
             "Scalar._GetDefaultValue", "FixedArray.IndexAsScalar/ChangingIndex", "UnitSystemManager.ConvertToCurrent/ConvertScalarToCurrent"]
ROUTES = ["scalar.CreateCopy.category", "array.CreateCopy.category", "fixedarray.ChangingIndex.neg", "scalar.GetValue", "scalar.CreateCopy", "ChangeScalars", "quantity.ConvertScalarValue", "quantity.Convert", "db.Convert.float",
          "db.Convert.int", "db.Convert.list", "db.Convert.tuple", "db.Convert.numpy", "array.GetValues.list", "array.GetValues.tuple",
          "array.GetValues.numpy", "array.GetValues.tuples", "array.CreateCopy", "fixedarray.IndexAsScalar", "fixedarray.ChangingIndex",
          "manager.ConvertToCurrent", "manager.ConvertScalarToCurrent", "category-default", "own-unit.simple", "own-unit.derived",
          "db.Convert.exp", "db.Convert.exp1", "clear_refill"]
BOUNDS = {
    "quick": "values: all reals; %d routes; container lengths 0..3; unit pairs: a kind-covering set (scale, affine, identity, legacy spelling, "
             "category != quantity type, unknown) for every route, plus every unit <-> base of 40 seeded quantity types for the scalar routes; "
             "exponent route with e in {2,3,-1,-2} on scale-only pairs" % len(ROUTES),
    "thorough": "values: all reals; same routes; every unit <-> its base unit of every quantity type for the four scalar routes; 12000 seeded "
                "unit pairs for every other route; container lengths 0..3",
}
BOUNDS_ALSO = "; also: the simple filler's expression-string units through 12 container routes; units spelled [(u,1)] / ((u,1),) for 4 value kinds; every way of building an object from a category default in another unit (5 forms); Clear() followed by a new configuration of the same database object (2 orders)"
BOUNDS = {k_: v_ + BOUNDS_ALSO for k_, v_ in BOUNDS.items()}
ASSUMPTIONS = ["A-FP: floats are exact reals", "A-NP: numpy float64 element loops are the python operator per element (dtype=object SymArray)",
               "oracle = frombase_v(tobase_u(x)) taken from the real closures (anchored by C01)", "A-SHIM",
               "int amounts are concrete (-7, 0, 3): the int branch shares the float code"]
CHUNK = 25

COVER = [("length", "length", "m", "ft"), ("length", "depth", "cm", "km"), ("temperature", "temperature", "degC", "K"),
         ("temperature", "temperature", "degF", "degC"), ("temperature", "temperature", "K", "degR"),
         ("volume flow rate", "volume flow rate", "m3/d", "1000ft3/d"), ("volume flow rate", "gas volume flow rate", "M(ft3)/d", "m3/s"),
         ("pressure", "pressure", "psi", "kgf/cm2"), ("dimensionless", "percentage", "%", "-"), ("mass", "mass", "lbm", "g")]
SCALAR_ROUTES = ["scalar.GetValue", "scalar.CreateCopy", "ChangeScalars", "quantity.ConvertScalarValue"]
EXP_PAIRS = [("length", "m", "cm"), ("length", "ft", "km"), ("time", "min", "s"), ("mass", "lbm", "kg")]


def items(tier, seed):
    rng = random.Random(seed)
    db = get_db("default")
    out = []
    for qt, cat, u, v in COVER:
        for r in ROUTES:
            if r in ("own-unit.derived", "db.Convert.exp", "db.Convert.exp1", "clear_refill"):
                continue
            for n in ([2] if not r.split(".")[-1] in ("list", "tuple", "numpy", "tuples") and "array" not in r else [1, 2, 3] if r.endswith("tuples") else [0, 1, 3]):
                out.append({"r": r, "qt": qt, "cat": cat, "u": u, "v": v, "n": n})
    # the simple filler's expression-string units through every container route
    for qt, u, v in (("length", "m", "km"), ("length", "mm", "cm"), ("time", "h", "s"), ("time", "min", "d")):
        for r in ("db.Convert.float", "db.Convert.list", "db.Convert.tuple", "db.Convert.numpy", "array.GetValues.list", "array.GetValues.tuple", "array.GetValues.numpy",
                  "array.GetValues.tuples", "array.CreateCopy", "scalar.GetValue", "quantity.Convert", "fixedarray.IndexAsScalar"):
            out.append({"r": r, "qt": qt, "cat": qt, "u": u, "v": v, "n": 2, "dbk": "simple"})
    # history: the same database object emptied with Clear() and configured again with another definition of the unit
    for order in (0, 1):
        out.append({"r": "clear_refill", "qt": "length", "cat": "length", "u": "ft", "v": "m", "n": 2, "order": order})
    # two databases that define one unit differently: an explicit unit_database argument, a quantity of one database used while the other is current
    for sub_ in ("manager_db_argument", "array_of_foreign_quantity", "alias_after_redefinition"):
        for order in (0, 1):
            out.append({"r": "clear_refill", "sub": sub_, "qt": "length", "cat": "length", "u": "ft", "v": "m", "n": 2, "order": order})
    # units spelled as one (unit, 1) pair: the same conversion as the plain spelling, offsets and negative amounts included, every value kind
    for qt, cat, u, v in COVER:
        for vk in ("float", "list", "tuple", "numpy"):
            out.append({"r": "db.Convert.exp1", "qt": qt, "cat": cat, "u": u, "v": v, "n": 2, "vk": vk})
    for qt, u, v in EXP_PAIRS:
        for e in (2, 3, -1, -2):
            out.append({"r": "db.Convert.exp", "qt": qt, "cat": qt, "u": u, "v": v, "e": e, "n": 1})
    for spec in (["mul", "m", "m"], ["div", "m", "s"], ["mul", "cm", "ft"], ["divnum", "s", None]):
        out.append({"r": "own-unit.derived", "spec": spec, "qt": "", "cat": "", "u": "", "v": "", "n": 2})
    qts = db.GetQuantityTypes()
    if tier == "quick":
        qts = seeded_sample(qts, 40, seed)
    for qt in qts:
        units = db.GetUnits(qt)
        cat = qt if qt in db.categories_to_quantity_types else None
        if cat is None:
            continue
        base = units[0]
        for u in units[1:]:
            for r in SCALAR_ROUTES:
                out.append({"r": r, "qt": qt, "cat": cat, "u": u, "v": base, "n": 1})
                out.append({"r": r, "qt": qt, "cat": cat, "u": base, "v": u, "n": 1})
    if tier != "quick":
        allp = []
        for qt in db.GetQuantityTypes():
            if qt not in db.categories_to_quantity_types:
                continue
            us = db.GetUnits(qt)
            allp += [(qt, u, v) for u in us for v in us if u != v]
        for qt, u, v in seeded_sample(allp, 12000, seed):
            r = rng.choice([x for x in ROUTES if x not in SCALAR_ROUTES and x not in ("own-unit.derived", "db.Convert.exp", "db.Convert.exp1", "category-default", "clear_refill")])
            out.append({"r": r, "qt": qt, "cat": qt, "u": u, "v": v, "n": rng.choice([1, 2, 3])})
    out[0]["canary"] = True
    for i, c in enumerate(out):
        if i % 2 == 0 and c["r"] not in ("category-default", "own-unit.derived", "clear_refill") and not c.get("dbk"):
            c["prelude"] = True
    rng.shuffle(out)
    return out


def inputs(cfg):
    d = {"x%d" % i: "real" for i in range(max(cfg["n"], 1))}
    if cfg["r"] in ("category-default", "fixedarray.ChangingIndex", "fixedarray.ChangingIndex.neg"):
        d["d"] = "real"
    if cfg["r"] == "array.GetValues.tuples" or cfg["r"].startswith("fixedarray"):  # (incl. fixedarray.ChangingIndex.neg)
        d["x1"] = "real"
        d["x2"] = "real"
    return d


class _Owner:
    pass


def _xs(cfg, V):
    return [V["x%d" % i] for i in range(cfg["n"])]


def _meta(o):
    return {"cat": o.GetCategory(), "qt": o.GetQuantityType(), "unit": o.GetUnit(), "cls": type(o).__name__}


def run(cfg, V):
    from barril.units import Array, FixedArray, ObtainQuantity, Scalar, UnitDatabase
    from barril.units import ChangeScalars
    from barril.units.unit_system_manager import UnitSystemManager

    r, qt, cat, u, v = cfg["r"], cfg["qt"], cfg["cat"], cfg["u"], cfg["v"]
    if cfg.get("dbk") and not cfg.get("_pushed"):
        with pushed(get_db(cfg["dbk"])):
            return run(dict(cfg, _pushed=True), V)
    db = UnitDatabase.GetSingleton()
    x = V["x0"]
    if cfg.get("prelude") and u and v:
        # history: conversions of an Unknown-quantity object to/from the very units used below, and a failing lookup
        from barril.units import GetUnknownQuantity, UnitsError

        ua = Array(GetUnknownQuantity("x"), [1.0, 2.0])
        ua.GetValues(v), ua.GetValues(u)
        Scalar(GetUnknownQuantity(), 1.0).GetValue(v)
        Array(GetUnknownQuantity(), (1.0,)).GetValues(u)
        try:
            db.Convert("time", "s", v, 1.0) if qt != "time" else db.Convert("length", "m", v, 1.0)
        except UnitsError:
            pass
    if r == "scalar.GetValue":
        s = Scalar(x, u, cat)
        cu2 = (s.GetUnit() + "_")[:-1]  # an equal unit string that is a different object (e.g. parsed from text)
        return {"vals": [s.GetValue(v)], "own": s.GetValue(s.GetUnit()) is x and s.GetValue() is x and s.GetValue(cu2) is x and s.CreateCopy(unit=cu2).GetValue() is x,
                "own_spelled": [s.GetValue(u)]}
    if r in ("scalar.CreateCopy.category", "array.CreateCopy.category"):
        others = [c for c in db.IterCategories() if db.GetCategoryQuantityType(c) == qt and c != cat]
        cat2 = others[0] if others else cat
        s = Scalar(x, u, cat) if r.startswith("scalar") else Array([x, x], u, cat)
        c = s.CreateCopy(unit=v, category=cat2)
        val = c.GetAbstractValue()
        return {"vals": [val] if r.startswith("scalar") else list(val), "flat_in": [x] if r.startswith("scalar") else [x, x], "meta": _meta(c),
                "src": {"cat": cat2, "qt": qt}, "src_kept": _meta(s)["cat"] == cat and s.GetAbstractValue() is not None}
    if r == "fixedarray.ChangingIndex.neg":
        fa = FixedArray(3, [V["x0"], V["x1"], V["x2"]], u, cat)
        n1 = fa.ChangingIndex(-1, Scalar(V["d"], v, cat))
        n2 = fa.ChangingIndex(-3, V["d"])
        return {"neg": (list(n1.GetValues()), n1.GetUnit(), list(n2.GetValues()), n2.GetUnit())}
    if r == "scalar.CreateCopy":
        s = Scalar(x, u, cat)
        c = s.CreateCopy(unit=v)
        return {"vals": [c.GetValue()], "meta": _meta(c), "src": _meta(s)}
    if r == "ChangeScalars":
        o = _Owner()
        o.s = Scalar(x, u, cat)
        src = _meta(o.s)
        ChangeScalars(o, s=(None, v))
        return {"vals": [o.s.GetValue()], "meta": _meta(o.s), "src": src}
    if r == "quantity.ConvertScalarValue":
        return {"vals": [ObtainQuantity(u, cat).ConvertScalarValue(x, v)]}
    if r == "quantity.Convert":
        return {"vals": [ObtainQuantity(u, cat).Convert(x, v)]}
    if r == "db.Convert.float":
        return {"vals": [db.Convert(cat, u, v, x)], "via_qt": [db.Convert(qt, u, v, x)]}
    if r == "db.Convert.int":
        ks = [-7, 0, 3]
        return {"vals": [db.Convert(cat, u, v, k) for k in ks], "ints": ks}
    if r in ("db.Convert.list", "db.Convert.tuple", "db.Convert.numpy"):
        xs = _xs(cfg, V)
        cont = list(xs) if r.endswith("list") else tuple(xs) if r.endswith("tuple") else SymArray(xs) if any(hasattr(e, "expr") for e in xs) or not xs else __import__("numpy").array(xs, dtype=float)
        if r.endswith("numpy") and not xs:
            cont = __import__("numpy").array([], dtype=float)
        res = db.Convert(cat, u, v, cont)
        return {"vals": list(res), "ctype": type(res).__name__ if not r.endswith("numpy") else "ndarray" if isinstance(res, __import__("numpy").ndarray) else type(res).__name__,
                "want_ctype": "list" if r.endswith("list") else "tuple" if r.endswith("tuple") else "ndarray"}
    if r.startswith("array.GetValues") or r == "array.CreateCopy":
        xs = _xs(cfg, V)
        kind = r.split(".")[-1]
        if kind == "tuples":
            cont = {1: [(V["x0"], V["x1"])], 2: [(V["x0"],), (V["x1"], V["x2"])], 3: [(V["x0"], V["x1"]), (V["x2"],)]}[min(max(cfg["n"], 1), 3)]
            a = Array(cont, u, cat)
            res = a.GetValues(v)
            flat = [e for t in res for e in t]
            return {"vals": flat, "ctype": type(res).__name__ + "/" + ",".join(type(t).__name__ for t in res), "want_ctype": "list/" + ",".join("tuple" for _ in cont), "rows": [len(t) for t in res], "want_rows": [len(t) for t in cont],
                    "flat_in": [e for t in cont for e in t]}
        if kind in ("list", "CreateCopy"):
            cont = list(xs)
        elif kind == "tuple":
            cont = tuple(xs)
        else:
            import numpy

            cont = SymArray(xs) if any(hasattr(e, "expr") for e in xs) or not xs else numpy.array(xs, dtype=float)
        a = Array(cont, u, cat)
        if kind == "CreateCopy":
            c = a.CreateCopy(unit=v)
            return {"vals": list(c.GetValues()), "meta": _meta(c), "src": _meta(a)}
        res = a.GetValues(v)
        import numpy

        return {"vals": list(res), "ctype": "ndarray" if isinstance(res, numpy.ndarray) else type(res).__name__,
                "want_ctype": "ndarray" if kind == "numpy" else kind, "own": a.GetValues(a.GetUnit()) is cont and a.GetValues() is cont}
    if r == "fixedarray.IndexAsScalar":
        fa = FixedArray(3, [V["x0"], V["x1"], V["x2"]], u, cat)
        s = fa.IndexAsScalar(1, ObtainQuantity(v, cat))
        s0 = fa.IndexAsScalar(2)
        return {"vals": [s.GetValue()], "flat_in": [V["x1"]], "meta": _meta(s), "src": _meta(fa), "same": s0.GetValue() is V["x2"] and s0.GetUnit() == fa.GetUnit()}
    if r == "fixedarray.ChangingIndex":
        fa = FixedArray(3, [V["x0"], V["x1"], V["x2"]], u, cat)
        n1 = fa.ChangingIndex(1, Scalar(V["d"], v, cat))  # result in v
        n2 = fa.ChangingIndex(1, Scalar(V["d"], v, cat), use_value_unit=False)  # result stays in u
        return {"n1": list(n1.GetValues()), "n1_unit": n1.GetUnit(), "n2": list(n2.GetValues()), "n2_unit": n2.GetUnit(),
                "dims": (n1.dimension, n2.dimension), "meta": _meta(n1), "src": _meta(fa)}
    if r.startswith("manager."):
        m = UnitSystemManager()
        m.AddUnitSystem("s1", "system one", {cat: v})
        if r == "manager.ConvertToCurrent":
            val, unit = m.ConvertToCurrent(cat, u, x)
            val2, unit2 = m.ConvertToCurrent("no such category", u, x)
            return {"vals": [val], "unit": unit, "untouched": val2 is x and unit2 == u}
        s = Scalar(x, u, cat)
        c = m.ConvertScalarToCurrent(s)
        return {"vals": [c.GetValue()], "meta": _meta(c), "src": _meta(s)}
    if r == "category-default":
        sdb = fresh_posc_db()
        with pushed(sdb):
            sdb.AddCategory("c_sym", qt, default_unit=u, default_value=V["d"])
            s = Scalar("c_sym", unit=v)
            s_def = Scalar("c_sym")
            from barril.units import FractionScalar

            qv = ObtainQuantity(v, "c_sym")
            fl = lambda o: o.GetValue().__float__() if hasattr(o.GetValue(), "GetFraction") else o.GetValue()  # noqa: E731
            # every way of building an object from the category default in the unit v: category + unit, the quantity alone, CreateWithQuantity
            alts = [Scalar(qv).GetValue(), Scalar.CreateWithQuantity(qv).GetValue(), fl(FractionScalar("c_sym", unit=v)), fl(FractionScalar(qv))]
            return {"vals": [s.GetValue()] + alts, "flat_in": [V["d"]] * 5, "meta": _meta(s), "def_is": s_def.GetValue() is V["d"] and s_def.GetUnit() == sdb.GetInfo(qt, u).unit,
                    "src": {"cat": "c_sym", "qt": qt}}
    if r == "own-unit.simple":
        s = Scalar(x, u, cat)
        a = Array([x], u, cat)
        q = ObtainQuantity(u, cat)
        cu = s.GetUnit()  # the current spelling of the object's own unit
        cu2 = (cu + "_")[:-1]  # equal text, different string object
        return {"own": s.GetValue(cu) is x and q.ConvertScalarValue(x, cu) is x and q.Convert(x, cu) is x and a.GetValues(cu)[0] is x
                and db.Convert(cat, u, u, x) is x and db.Convert(cat, cu, cu, x) is x
                and s.GetValue(cu2) is x and q.ConvertScalarValue(x, cu2) is x and q.Convert(x, cu2) is x and a.GetValues(cu2)[0] is x and db.Convert(cat, cu2, cu, x) is x,
                "vals": []}
    if r == "own-unit.derived":
        op, a, b = cfg["spec"]
        if op == "divnum":
            s = 1.0 / Scalar(V["x0"], a)
        else:
            s = (Scalar(V["x0"], a) * Scalar(V["x1"], b)) if op == "mul" else (Scalar(V["x0"], a) / Scalar(V["x1"], b))
        stored = s.GetValue()
        got = s.GetValue(s.GetUnit())
        arr = Array.CreateWithQuantity(s.GetQuantity(), [stored])
        got_a = arr.GetValues(s.GetUnit())
        return {"own": got is stored and got_a[0] is stored, "vals": []}
    if r == "db.Convert.exp":
        e = cfg["e"]
        res = db.Convert(qt, [(u, e)], [(v, e)], x)
        return {"vals": [res]}
    if r == "clear_refill" and cfg.get("sub"):
        f1, f2 = (0.25, 0.3048) if cfg["order"] == 0 else (0.3048, 0.5)

        def mk(f):
            d_ = UnitDatabase()
            d_.AddUnitBase("length", "meters", "m")
            d_.AddUnit("length", "feet", "ft", lambda t, f=f: t / f, lambda t, f=f: t * f)
            d_.AddCategory("length", "length")
            return d_

        db1, db2 = mk(f1), mk(f2)
        if cfg["sub"] == "manager_db_argument":
            with pushed(db1):
                m = UnitSystemManager()
                m.AddUnitSystem("s1", "system one", {"length": "m"})
                s = Scalar(x, "ft")
                got = [m.ConvertScalarToCurrent(s, db2).GetValue(), m.ConvertToCurrent("length", "ft", x, db2)[0], m.ConvertScalarToCurrent(s).GetValue()]
            return {"first": [], "second": got[:2], "dflt": None, "f": (f1, f2), "own": [got[2]]}
        if cfg["sub"] == "array_of_foreign_quantity":
            with pushed(db2):
                q = ObtainQuantity("ft", "length")  # a quantity of db2 ...
            with pushed(db1):  # ... used while db1 is current: it converts with ITS database whatever object holds it
                got = [Array(q, [x, x]).GetValues("m")[0], Array.CreateWithQuantity(q, (x,)).GetValues("m")[0], Scalar(q, x).GetValue("m"), q.Convert(x, "m"),
                       FixedArray(2, q, [x, x]).IndexAsScalar(0, ObtainQuantity("m")).GetValue(), Array(q, [x]).CreateCopy().GetValues("m")[0]]
            return {"first": [], "second": got, "dflt": None, "f": (f1, f2), "own": []}
        # alias_after_redefinition: the unit was used WITHOUT a category before its default category is redefined with a non-zero default
        with pushed(db2):
            Scalar(1.0, "ft"), Array([1.0], "ft"), ObtainQuantity("ft")
            db2.AddCategory("length", "length", override=True, default_unit="m", default_value=V["x1"])
            got = [Scalar(ObtainQuantity("ft")).GetValue("m"), Scalar.CreateWithQuantity(ObtainQuantity("ft")).GetValue("m"), Scalar("length", unit="ft").GetValue("m"),
                   Scalar(ObtainQuantity("ft", "length")).GetValue("m")]
        return {"first": [], "second": [], "dflt": None, "f": (f1, f2), "own": [], "defaults": got}
    if r == "clear_refill":
        f1, f2 = (0.25, 0.3048) if cfg["order"] == 0 else (0.3048, 0.5)
        sdb = UnitDatabase()

        def fill(f):
            sdb.AddUnitBase("length", "meters", "m")
            sdb.AddUnit("length", "feet", "ft", lambda t, f=f: t / f, lambda t, f=f: t * f)
            sdb.AddCategory("length", "length")
            sdb.AddCategory("depth", "length", default_unit="ft", default_value=V["x1"])

        with pushed(sdb):
            fill(f1)
            first = [Scalar(x, "ft").GetValue("m"), Scalar(x, "ft", "depth").GetValue("m"), Array([x], "ft").GetValues("m")[0], Scalar("depth", unit="m").GetValue()]
            sdb.Clear()
            fill(f2)
            s = Scalar(x, "ft")
            o = _Owner()
            o.s = Scalar(x, "ft", "depth")
            ChangeScalars(o, s=(None, "m"))
            second = [s.GetValue("m"), s.CreateCopy(unit="m").GetValue(), o.s.GetValue(), ObtainQuantity("ft", "depth").ConvertScalarValue(x, "m"), ObtainQuantity("ft").Convert(x, "m"),
                      sdb.Convert("length", "ft", "m", x), Array([x], "ft").GetValues("m")[0], FixedArray(2, [x, x], "ft").IndexAsScalar(0, ObtainQuantity("m", "depth")).GetValue(),
                      FixedArray(2, [0.0, 0.0], "m").ChangingIndex(0, Scalar(x, "ft"), use_value_unit=False).GetValues()[0]]
            dflt = Scalar("depth", unit="m").GetValue()
        return {"first": first, "second": second, "dflt": dflt, "f": (f1, f2)}
    if r == "db.Convert.exp1":
        xs = _xs(cfg, V)
        vk = cfg["vk"]
        val = x if vk == "float" else list(xs) if vk == "list" else tuple(xs) if vk == "tuple" else SymArray(xs) if any(hasattr(e, "expr") for e in xs) else __import__("numpy").array(xs, dtype=float)
        res = db.Convert(cat, [(u, 1)], [(v, 1)], val)
        res2 = db.Convert(cat, ((u, 1),), ((v, 1),), val)
        return {"vals": [res] if vk == "float" else list(res), "vals2": [res2] if vk == "float" else list(res2)}
    raise KeyError(r)


def props(cfg, T, obs):
    r, qt, cat, u, v = cfg["r"], cfg["qt"], cfg["cat"], cfg["u"], cfg["v"]
    if isinstance(obs, Raised):
        if r == "db.Convert.exp" and obs.isa(ValueError) and cfg["e"] < 0:
            return []  # 0 ** negative: math domain error, as math.pow raises
        if r == "own-unit.derived" and obs.isa(ZeroDivisionError):
            return []
        return [("conversion inside one quantity type does not raise", False)]
    db = get_db(cfg.get("dbk", "default"))
    P = []
    if r == "clear_refill":
        from symx.core import rv

        f1, f2 = (rv(f) for f in obs["f"])
        if cfg.get("sub"):
            return [("with two databases defining the unit differently, every route converts with the database it is given / the database the quantity belongs to; a default "
                     "redefined for a category reaches quantities obtained by unit alone before",
                     z3.And(*[approx(o, T["x0"] * f2) for o in obs["second"]], *[approx(o, T["x0"] * f1) for o in obs["own"]], *[approx(o, T["x1"]) for o in obs.get("defaults", [])]))]
        return [("after Clear() and a new configuration of the same database object every route converts with the NEW definition of the unit",
                 z3.And(*[approx(o, T["x0"] * f1) for o in obs["first"][:3]], approx(obs["first"][3], T["x1"] * f1), *[approx(o, T["x0"] * f2) for o in obs["second"]], approx(obs["dflt"], T["x1"] * f2)))]
    if r == "db.Convert.exp1":
        ins = [T["x%d" % i] for i in range(len(obs["vals"]))]
        return [("units spelled [(u, 1)] / ((u, 1),) convert exactly like the plain spelling, element by element",
                 z3.And(z3.BoolVal(len(obs["vals"]) == len(obs["vals2"]) == (1 if cfg["vk"] == "float" else cfg["n"])),
                        *[approx(o, oracle_convert(db, qt, u, v, i)) for o, i in zip(obs["vals"], ins)], *[approx(o, oracle_convert(db, qt, u, v, i)) for o, i in zip(obs["vals2"], ins)]))]
    if r == "fixedarray.ChangingIndex.neg":
        v1, u1, v2, u2 = obs["neg"]
        want1 = [oracle_convert(db, qt, u, v, T["x0"]), oracle_convert(db, qt, u, v, T["x1"]), T["d"]]
        want2 = [T["d"], T["x1"], T["x2"]]
        return [("ChangingIndex with a negative index replaces the element counted from the end",
                 z3.And(*[approx(a, b) for a, b in zip(v1, want1)], *[approx(a, b) for a, b in zip(v2, want2)],
                        z3.BoolVal(len(v1) == 3 and len(v2) == 3 and u1 == db.GetInfo(qt, v).unit and u2 == db.GetInfo(qt, u).unit)))]
    if r == "fixedarray.ChangingIndex":
        want1 = [oracle_convert(db, qt, u, v, T["x0"]), T["d"], oracle_convert(db, qt, u, v, T["x2"])]
        want2 = [T["x0"], oracle_convert(db, qt, v, u, T["d"]), T["x2"]]
        P.append(("ChangingIndex(value unit): other elements re-expressed, index = supplied amount",
                  z3.And(*[approx(a, b) for a, b in zip(obs["n1"], want1)], z3.BoolVal(obs["n1_unit"] == db.GetInfo(qt, v).unit and len(obs["n1"]) == 3))))
        P.append(("ChangingIndex(keep unit): differs only at the index, physically the supplied amount",
                  z3.And(*[approx(a, b) for a, b in zip(obs["n2"], want2)], z3.BoolVal(obs["n2_unit"] == db.GetInfo(qt, u).unit and len(obs["n2"]) == 3))))
        P.append(("dimension kept", obs["dims"] == (3, 3)))
    elif r == "db.Convert.exp":
        ratio = slope_of(lambda t: oracle_convert(db, qt, u, v, t))
        P.append(("value ~ x * ratio^e", approx(obs["vals"][0], T["x0"] * zpow(ratio, cfg["e"]))))
    elif obs["vals"]:
        if r == "db.Convert.int":
            ins = [z3.RealVal(k) for k in obs["ints"]]
        elif "flat_in" in obs:
            ins = [term(t) for t in obs["flat_in"]] if not isinstance(obs["flat_in"][0], z3.ExprRef) else obs["flat_in"]
            if r == "category-default":
                ins = [T["d"]] * len(obs["vals"])
            elif r.endswith("CreateCopy.category"):
                ins = [T["x0"]] * len(obs["vals"])
            elif r == "fixedarray.IndexAsScalar":
                ins = [T["x1"]]
            elif r == "array.GetValues.tuples":
                ins = [T["x0"], T["x1"], T["x2"]][: len(obs["vals"])]
        else:
            ins = [T["x%d" % i] for i in range(len(obs["vals"]))]
        ok = len(ins) == len(obs["vals"])
        P.append(("same number of elements", ok))
        if ok:
            P.append(("value ~ frombase_v(tobase_u(x)) element by element",
                      z3.And(*[approx(o, oracle_convert(db, qt, u, v, i)) for o, i in zip(obs["vals"], ins)])))
        if "via_qt" in obs:
            P.append(("category and quantity-type spellings agree", approx(obs["via_qt"][0], obs["vals"][0])))
    elif cfg["n"] == 0:
        P.append(("empty container converts to empty", True))
    if "rows" in obs:
        P.append(("tuple-of-tuples keeps its row structure", obs["rows"] == obs["want_rows"]))
    if "ctype" in obs:
        P.append(("container kind preserved", obs["ctype"] == obs["want_ctype"]))
    if "meta" in obs:
        fixed_v = db.GetInfo(qt, v).unit if qt else v
        P.append(("category and quantity type kept", obs["meta"]["cat"] == obs["src"]["cat"] and obs["meta"]["qt"] == obs["src"]["qt"]))
        if r not in ("fixedarray.ChangingIndex",):
            P.append(("result unit is the requested unit", obs["meta"]["unit"] == fixed_v))
    if "unit" in obs:
        P.append(("ConvertToCurrent reports the current default unit; unmapped category untouched", obs["unit"] == v and bool(obs["untouched"])))
    if "own" in obs:
        P.append(("own unit returns the stored value unchanged (identical object)", bool(obs["own"])))
    if "own_spelled" in obs:
        P.append(("own unit in the spelling it was given ~ stored value", approx(obs["own_spelled"][0], T["x0"])))
    if "same" in obs:
        P.append(("IndexAsScalar() without quantity returns the stored amount", bool(obs["same"])))
    if "def_is" in obs:
        P.append(("category alone gives its default value/unit", bool(obs["def_is"])))
    if cfg.get("canary") and obs.get("vals"):
        P.append(("canary:converted value equals the input", approx(obs["vals"][0], T["x0"])))
    return P


def finding_key(cfg, name):
    if cfg["r"] == "own-unit.derived":
        return "own-unit.derived %s :: %s" % (cfg["spec"], name)
    return "%s%s %s[%s] %s->%s :: %s" % (cfg["r"], " after unknown-quantity prelude" if cfg.get("prelude") else "", cfg["qt"], cfg["cat"], cfg["u"], cfg["v"], name)
