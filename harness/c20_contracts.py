"""CrossHair contracts over the REAL string renderers of barril.units._quantity.Quantity (C20).
The renderers only read `self` through one getter, so they are driven with a stand-in ("drive the unit").
Each function below is one condition: CrossHair must report 'Confirmed over all paths'."""
from typing import List, Tuple

from barril.units._quantity import Quantity

LO, HI = -4, 4


class _Stub:
    def __init__(self, cu):
        self._cu = cu

    def GetComposingUnitsJoiningExponents(self):
        return self._cu


def ref_units(pairs) -> str:
    """reference renderer written from the table grammar: factors joined by '.', one '/', exponent suffixes, '1/' for a pure reciprocal"""
    num = [u + (str(e) if e != 1 else "") for u, e in pairs if e > 0]
    den = [u + (str(-e) if e != -1 else "") for u, e in pairs if e < 0]
    s = ".".join(num)
    if den:
        s = (s if num else "1") + "/" + ".".join(den)
    return s


def ref_makestr(pairs) -> str:
    num = [("(%s) ** %d" % (r, e) if e != 1 else r) for r, e in pairs if e > 0]
    den = [("(%s) ** %d" % (r, -e) if e != -1 else r) for r, e in pairs if e < 0]
    s = " * ".join(num)
    if den:
        s = (s + " / " if num else "1 / ") + " * ".join(den)
    return s


def units1(e1: int) -> bool:
    """
    pre: -4 <= e1 <= 4
    post: _
    """
    p = (("m", e1),)
    return Quantity._CreateUnitsWithJoinedExponentsString(_Stub(p)) == ref_units(p)


def units2(e1: int, e2: int) -> bool:
    """
    pre: -4 <= e1 <= 4 and -4 <= e2 <= 4
    post: _
    """
    p = (("m", e1), ("s", e2))
    return Quantity._CreateUnitsWithJoinedExponentsString(_Stub(p)) == ref_units(p)


def units3(e1: int, e2: int, e3: int) -> bool:
    """
    pre: -4 <= e1 <= 4 and -4 <= e2 <= 4 and -4 <= e3 <= 4
    post: _
    """
    p = (("m", e1), ("s", e2), ("kg", e3))
    return Quantity._CreateUnitsWithJoinedExponentsString(_Stub(p)) == ref_units(p)


def makestr1(e1: int) -> bool:
    """
    pre: -4 <= e1 <= 4
    post: _
    """
    p = [("length", e1)]
    return Quantity._MakeStr(None, p) == ref_makestr(p)


def makestr2(e1: int, e2: int) -> bool:
    """
    pre: -4 <= e1 <= 4 and -4 <= e2 <= 4
    post: _
    """
    p = [("length", e1), ("time", e2)]
    return Quantity._MakeStr(None, p) == ref_makestr(p)


def makestr3(e1: int, e2: int, e3: int) -> bool:
    """
    pre: -4 <= e1 <= 4 and -4 <= e2 <= 4 and -4 <= e3 <= 4
    post: _
    """
    p = [("length", e1), ("time", e2), ("mass", e3)]
    return Quantity._MakeStr(None, p) == ref_makestr(p)


def canary_units2(e1: int, e2: int) -> bool:
    """
    pre: -4 <= e1 <= 4 and -4 <= e2 <= 4
    post: _
    """
    p = (("m", e1), ("s", e2))
    return Quantity._CreateUnitsWithJoinedExponentsString(_Stub(p)) == ".".join(u + str(e) for u, e in p if e)


def units4(e1: int, e2: int, e3: int, e4: int) -> bool:
    """
    pre: -4 <= e1 <= 4 and -4 <= e2 <= 4 and -4 <= e3 <= 4 and -4 <= e4 <= 4
    post: _
    """
    p = (("m", e1), ("s", e2), ("kg", e3), ("K", e4))
    return Quantity._CreateUnitsWithJoinedExponentsString(_Stub(p)) == ref_units(p)


def makestr4(e1: int, e2: int, e3: int, e4: int) -> bool:
    """
    pre: -4 <= e1 <= 4 and -4 <= e2 <= 4 and -4 <= e3 <= 4 and -4 <= e4 <= 4
    post: _
    """
    p = [("length", e1), ("time", e2), ("mass", e3), ("temperature", e4)]
    return Quantity._MakeStr(None, p) == ref_makestr(p)
