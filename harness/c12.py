"""C12 - limit validation depends only on the physical amount.
Symbolic: the amounts AND the limits / default value (they go through the real AddCategory).
FP mode (all IEEE doubles incl. NaN, +-inf, -0) where the code only compares (value in the default unit)."""
import itertools
import random

import z3

from symx import core
from symx.check import Raised
from symx.core import SymReal, SymFP, term
from symx.shims import SymArray

from .common import fresh_posc_db, oracle_convert, pushed

PID = "C12"
FUNCTIONS = ["Quantity.CheckValue/_RaiseValueError/ConvertScalarValue", "Array.ValidateValues/_DoValidateValues/CheckValidity",
             "AbstractValueWithQuantityObject.IsValid", "Scalar.CheckValidity", "FractionScalar.CheckValidity", "UnitDatabase.AddCategory",
             "UnitDatabase.CheckValueForCategory", "Scalar._GetDefaultValue"]
LIMS = [("none", None, None)] + [("min", e, None) for e in (False, True)] + [("max", None, e) for e in (False, True)] + \
       [("both", a, b) for a in (False, True) for b in (False, True)]
UNITS = [("length", "in", "in"), ("length", "m", "negm"), ("length", "m", "m"), ("length", "m", "ft"), ("length", "in", "m"), ("length", "in", "cm"), ("temperature", "degC", "K"),
         ("temperature", "K", "degF"), ("volume flow rate", "m3/d", "1000ft3/d"), ("pressure", "psi", "bar")]
CLASSES = ["Scalar", "FractionScalar", "FractionScalar.frac", "db.CheckValueForCategory", "Array.list", "Array.tuple", "Array.numpy", "Array.tuples", "FixedArray.list"]
BOUNDS = {
    "quick": "Real mode: amounts, min, max and default value range over ALL reals through the real AddCategory (9 limit configurations x given/auto "
             "default), 8 (quantity type, default unit, value unit) triples incl. affine, legacy-spelled and non-base default units, 8 value classes, "
             "array lengths 0..3; FP mode: amounts over ALL IEEE doubles (NaN, inf, -0) with value unit = default unit, limits 0.0/10.0, lengths 0..3",
    "thorough": "same with array lengths 0..4 in both modes, every element order being covered by the symbolic elements",
}
BOUNDS_ALSO = '; also: a user-registered DECREASING unit; the verdict under reversal of rows and of elements inside a row (FP mode also for lists of tuples); the category default built in another unit (4 forms); histories: category redefined, copied with from_category, copy moved to another category, legacy-spelled valid units, Clear() and a new configuration of the same database object; a plain from_category copy; CheckValueForCategory without a unit and the ScalarMinMaxValidator messages against IsValid; float32/float16/int storage (auxiliary)'
BOUNDS = {k_: v_ + BOUNDS_ALSO for k_, v_ in BOUNDS.items()}
ASSUMPTIONS = ["A-FP (Real mode): floats are exact reals", "FP mode: z3 Float64 semantics = IEEE-754 binary64 comparisons; numpy.isnan shimmed to fpIsNaN",
               "A-NP: numpy arrays as dtype=object arrays of proxies", "NaN/inf THROUGH a conversion expression is outside the claim",
               "tuple-of-tuples Arrays: every amount must satisfy the limits, so a NaN amount anywhere is rejected when a limit exists (only FLAT arrays skip NaN)"]
CHUNK = 12
_CTR = [0]
_SDB = []


def items(tier, seed):
    out = []
    nmax = 3 if tier == "quick" else 4
    rng = random.Random(seed)
    for lim in LIMS:
        for (qt, du, u) in UNITS:
            for cls in CLASSES:
                ns = [1] if not cls.startswith(("Array", "Fixed")) else ([2, 3] if cls.startswith("Fixed") else list(range(0, nmax + 1)))
                for n in ns:
                    for dflt in (("given", "auto") if cls == "Scalar" and u == du or lim[0] != "both" and cls == "Scalar" else ("given",)):
                        out.append({"lim": list(lim), "qt": qt, "du": du, "u": u, "cls": cls, "n": n, "dflt": dflt, "fp": False})
    for lim in LIMS:
        for cls in ("Scalar", "Array.list", "Array.tuple", "Array.numpy", "FixedArray.list", "Array.tuples"):
            ns = [1] if cls == "Scalar" else ([2, 3] if cls.startswith("Fixed") or cls == "Array.tuples" else list(range(0, nmax + 1)))
            for n in ns:
                out.append({"lim": list(lim), "qt": "length", "du": "m", "u": "m", "cls": cls, "n": n, "dflt": "given", "fp": True})
    hist = []
    for lim in LIMS[1:]:
        for u in ("m", "cm"):
            for cls in ("Scalar", "Array.list", "FractionScalar"):
                hist.append({"k": "redefine", "lim": list(lim), "qt": "length", "du": "m", "u": u, "cls": cls, "n": 2, "dflt": "given", "fp": False})
        for leg in (["volume flow rate", ["1000ft3/d", "M(ft3)/d", "Mm3/d"]], ["force per velocity", ["Ns/m"]], ["molecular weight", ["lb/lbmole", "g/mol"]]):
            hist.append({"k": "legacy_valid_units", "lim": list(lim), "qt": leg[0], "du": leg[1][0], "u": leg[1][0], "leg": leg[1], "cls": "Scalar", "n": 1, "dflt": "auto" if not (lim[1] or lim[2]) else "given", "fp": False})
        for cls in ("Scalar", "Array.list", "FractionScalar"):
            hist.append({"k": "clear_refill", "lim": list(lim), "qt": "length", "du": "m", "u": "cm", "cls": cls, "n": 2, "dflt": "given", "fp": False})
        hist.append({"k": "from_category", "lim": list(lim), "qt": "length", "du": "m", "u": "m", "cls": "Scalar", "n": 1, "dflt": "given", "fp": False})
        for cls in ("Array.list", "Array.numpy", "FixedArray.list"):
            hist.append({"k": "copy_category", "lim": list(lim), "qt": "length", "du": "m", "u": "cm", "cls": cls, "n": 2, "dflt": "given", "fp": False})
    for cls in ("Array", "FixedArray"):
        for dt in ("float32", "float16", "float64", "int32"):
            hist.append({"k": "aux_narrow_dtype", "lim": ["both", False, False], "qt": "length", "du": "m", "u": "m", "cls": cls, "dt": dt, "n": 2, "dflt": "given", "fp": False})
    if tier == "quick":
        fpi = [c for c in out if c["fp"]]
        rest = [c for c in out if not c["fp"]]
        keep = [c for c in rest if c["n"] <= 2 or c["qt"] in ("length",)]
        out = fpi + keep
    out += hist
    for c in out:
        if c["cls"] == "Scalar" and c["lim"][0] == "min" and not c["fp"] and "k" not in c:
            c["canary"] = True
            break
    rng.shuffle(out)
    return out


def inputs(cfg):
    kind = "fp" if cfg["fp"] else "real"
    d = {"x%d" % i: kind for i in range(max(cfg["n"], 1))}
    if not cfg["fp"]:
        d.update({"lo": "real", "hi": "real", "d": "real"})
    if "k" in cfg:
        d.update({"lo2": "real", "hi2": "real"})
    return d


def _sdb():
    if not _SDB:
        db = fresh_posc_db()
        # a user-registered unit whose conversion to the base unit is DECREASING (like degAPI against specific gravity)
        db.AddUnit("length", "metres below datum", "negm", lambda x: -x, lambda x: -x)
        _SDB.append(db)
    return _SDB[0]


def _limits(cfg, V):
    kind, emin, emax = cfg["lim"]
    if cfg["fp"]:
        lo, hi, d = 0.0, 10.0, 5.0
    else:
        lo, hi, d = V["lo"], V["hi"], V["d"]
    kw = {}
    if kind in ("min", "both"):
        kw.update(min_value=lo, is_min_exclusive=bool(emin))
    if kind in ("max", "both"):
        kw.update(max_value=hi, is_max_exclusive=bool(emax))
    if cfg["dflt"] == "given":
        kw["default_value"] = d
    return kw


def _verdict(fn):
    from barril.units.exceptions import QuantityValidationError

    try:
        fn()
        return {"ok": True}
    except QuantityValidationError as e:
        return {"ok": False, "op": e.operator, "limit": e.limit_value, "value": e.value}


def _mk_obj(cls, xs, u, cat=None):
    from barril.units import Array, FixedArray, FractionScalar, Scalar

    if cls == "Scalar":
        return Scalar(xs[0], u, cat) if cat else Scalar(xs[0], u)
    if cls == "FractionScalar":
        return FractionScalar(xs[0], u, cat) if cat else FractionScalar(xs[0], u)
    if cls == "Array.list":
        return Array(list(xs), u, cat) if cat else Array(list(xs), u)
    if cls == "Array.numpy":
        import numpy

        c = SymArray(xs) if core.is_sym(xs[0]) else numpy.array(xs, dtype=float)
        return Array(c, u, cat) if cat else Array(c, u)
    return FixedArray(len(xs), list(xs), u, cat) if cat else FixedArray(len(xs), list(xs), u)


def run_history(cfg, V):
    """validation after a HISTORY: a redefined category, a category copied from another one, a copy moved to another category"""
    from barril.units import Scalar

    db = fresh_posc_db()
    kw = _limits(cfg, V)
    xs = [V["x%d" % i] for i in range(cfg["n"])]
    k = cfg["k"]
    with pushed(db):
        if k == "aux_narrow_dtype":
            # auxiliary, concrete: numpy storage of a narrow dtype holds amounts that are NOT the decimal they print as; the verdict follows the amount it really holds
            import numpy
            from barril.units import Array, FixedArray

            db.AddCategory("c12n", "length", default_unit="m", min_value=0.1, max_value=0.3, default_value=0.2)
            dt = getattr(numpy, cfg["dt"])
            bad = []
            cands = [0.3, 0.1, 0.2, 0.30000001, 0.09999999, 0.25] if cfg["dt"] != "int32" else [0, 1, 2]
            for unit, scale in (("m", 1.0), ("mm", 1000.0)):
                for v in cands:
                    held = dt(v * scale)
                    arr = numpy.array([held, dt(0.2 * scale) if cfg["dt"] != "int32" else held], dtype=dt)
                    o = Array(arr, unit, "c12n") if cfg["cls"] == "Array" else FixedArray(2, arr, unit, "c12n")
                    want = all(Scalar(float(e), unit, "c12n").IsValid() for e in arr)
                    if o.IsValid() != want or Array([float(e) for e in arr], unit, "c12n").IsValid() != want:
                        bad.append((unit, v, float(held), o.IsValid(), want))
            return {"aux_bad": bad}
        if k == "clear_refill":
            # the SAME database object is emptied and configured again: objects and quantities of the first configuration exist, the category had no limits then
            from barril.units import UnitDatabase

            db.AddCategory("c12x", "length")  # first configuration: no limits
            for un in ("m", "cm", "km"):
                _mk_obj("Scalar", [1.0], un, "c12x"), _mk_obj("Array.list", [1.0, 2.0], un, "c12x"), _mk_obj("FractionScalar", [1.0], un, "c12x")
            db.Clear()
            UnitDatabase.FillUnitDatabaseWithPosc(db)
            try:
                db.AddCategory("c12x", "length", **kw)  # second configuration: a plain registration, with limits
            except (ValueError, AssertionError, RuntimeError):
                return {"skip": True}
            o1, o2 = _mk_obj(cfg["cls"], xs, cfg["u"], "c12x"), _mk_obj(cfg["cls"], xs, "m", "c12x")
            return {"valid_unit_only": o1.IsValid(), "valid_explicit": o2.IsValid(), "cat": "length", "second_unit": "m"}
        if k == "legacy_valid_units":
            # valid units given in legacy spellings and no default unit: the first valid unit becomes the default
            try:
                info = db.AddCategory("c12leg", cfg["qt"], valid_units=list(cfg["leg"]), **kw)
            except (ValueError, AssertionError, RuntimeError):
                return {"skip": True}
            s = Scalar("c12leg")
            try:
                db.CheckCategoryUnit("c12leg", info.default_unit)
                unit_ok = True
            except Exception as e:  # noqa
                unit_ok = type(e).__name__
            return {"default_unit": info.default_unit, "valid_units": list(db.GetValidUnits("c12leg")), "registered": info.default_unit in db.GetUnits(cfg["qt"]), "unit_ok": unit_ok,
                    "scalar": (s.GetUnit(), s.IsValid()), "default_value": info.default_value, "sv": s.GetValue()}
        if k == "redefine":
            # objects created through the unit alone BEFORE the category is redefined with limits
            for un in ("m", "cm", "km"):
                _mk_obj("Scalar", [1.0], un), _mk_obj("Array.list", [1.0, 2.0], un), Scalar(1.0, un, "length")
            try:
                db.AddCategory("length", "length", override=True, **kw)
            except (ValueError, AssertionError, RuntimeError):
                return {"skip": True}
            o1, o2 = _mk_obj(cfg["cls"], xs, cfg["u"]), _mk_obj(cfg["cls"], xs, cfg["u"], "length")
            return {"valid_unit_only": o1.IsValid(), "valid_explicit": o2.IsValid(), "cat": o1.GetCategory()}
        if k == "from_category":
            try:
                db.AddCategory("c12src", "length", default_unit="m", **kw)
            except (ValueError, AssertionError, RuntimeError):
                return {"skip": True}
            kind, emin, emax = cfg["lim"]
            kw2 = {"max_value": V["hi2"]} if kind in ("max", "both") else {"min_value": V["lo2"]}
            src = db.GetCategoryInfo("c12src")
            try:
                plain = db.AddCategory("c12plain", from_category="c12src")  # nothing overridden: every limit is the parent's
                plain_obs = (plain.min_value, plain.max_value, plain.is_min_exclusive, plain.is_max_exclusive, plain.default_value, Scalar("c12plain").IsValid(),
                             src.min_value, src.max_value, src.is_min_exclusive, src.is_max_exclusive, src.default_value)
            except (ValueError, AssertionError, RuntimeError) as e:
                plain_obs = type(e).__name__
            try:
                info = db.AddCategory("c12copy", from_category="c12src", **kw2)
            except (ValueError, AssertionError, RuntimeError) as e:
                return {"copied": False, "plain": plain_obs}
            s = Scalar("c12copy")
            return {"plain": plain_obs, "copied": True, "default": info.default_value, "min": info.min_value, "max": info.max_value, "emin": info.is_min_exclusive, "emax": info.is_max_exclusive,
                    "default_valid": s.IsValid()}
        # copy_category
        try:
            db.AddCategory("c12a", "length", default_unit="m", **kw)
            db.AddCategory("c12b", "length", default_unit="m", min_value=V["lo2"], default_value=V["lo2"])
        except (ValueError, AssertionError, RuntimeError):
            return {"skip": True}
        o = _mk_obj(cfg["cls"], xs, cfg["u"], "c12a")
        first = o.IsValid()
        c = o.CreateCopy(unit=cfg["u"], category="c12b")
        c2 = o.CreateCopy(unit="m", category="c12b")
        return {"first": first, "copy_valid": c.IsValid(), "copy2_valid": c2.IsValid(), "copy_cat": c.GetCategory()}


def run(cfg, V):
    from barril.units import Array, FixedArray, FractionScalar, Scalar

    if "k" in cfg:
        return run_history(cfg, V)
    sdb = _sdb()
    _CTR[0] += 1
    cat = "c%d" % _CTR[0]
    with pushed(sdb):
        try:
            info = sdb.AddCategory(cat, cfg["qt"], default_unit=cfg["du"], **_limits(cfg, V))
        except (ValueError, AssertionError, RuntimeError) as e:
            return {"registered": False, "exc": type(e).__name__}
        reg = {"registered": True, "default_value": info.default_value, "default_unit": info.default_unit, "min": info.min_value, "max": info.max_value,
               "qt_units": sdb.GetUnits(cfg["qt"]), "emin": info.is_min_exclusive, "emax": info.is_max_exclusive}
        s0 = Scalar(cat)
        reg["default_scalar"] = (s0.GetValue(), s0.GetUnit(), s0.IsValid())
        if cfg["cls"] in ("Scalar", "FractionScalar") and cfg["u"] != cfg["du"]:
            from barril.units import ObtainQuantity

            qu = ObtainQuantity(cfg["u"], cat)
            # the category default built in ANOTHER unit of the quantity type (category + unit, quantity alone), Scalar and FractionScalar
            reg["default_other_unit"] = [Scalar(cat, unit=cfg["u"]).IsValid(), Scalar(qu).IsValid(), FractionScalar(cat, unit=cfg["u"]).IsValid(), FractionScalar(qu).IsValid()]
        xs = [V["x%d" % i] for i in range(cfg["n"])]
        cls, u = cfg["cls"], cfg["u"]
        if cls == "Scalar":
            o = Scalar(xs[0], u, cat)
        elif cls == "FractionScalar":
            o = FractionScalar(xs[0], u, cat)
        elif cls == "FractionScalar.frac":
            from barril.basic.fraction import FractionValue

            o = FractionScalar(FractionValue(xs[0], (3, 4)), u, cat)
        elif cls == "db.CheckValueForCategory":
            o = None
        elif cls == "Array.list":
            o = Array(list(xs), u, cat)
        elif cls == "Array.tuple":
            o = Array(tuple(xs), u, cat)
        elif cls == "Array.numpy":
            import numpy

            o = Array(SymArray(xs) if (not xs or core.is_sym(xs[0])) else numpy.array(xs, dtype=float), u, cat)
        elif cls == "Array.tuples":
            o = Array([(x,) for x in xs[:1]] + ([tuple(xs[1:])] if len(xs) > 1 else []), u, cat)
        else:
            o = FixedArray(len(xs), list(xs), u, cat)
        if o is None:
            v1 = _verdict(lambda: sdb.CheckValueForCategory(cat, xs[0], u))
            # the unit may be omitted: the amount is then read in the category's DEFAULT unit
            from .common import oracle_convert as _oc

            x_in_du = SymReal(_oc(sdb, cfg["qt"], u, cfg["du"], xs[0])) if core.is_sym(xs[0]) else sdb.Convert(cfg["qt"], u, cfg["du"], xs[0])
            v_nounit = _verdict(lambda: sdb.CheckValueForCategory(cat, x_in_du))
            return reg | {"v1": v1, "v2": v1, "isvalid": v1["ok"], "isvalid2": v1["ok"], "same_verdict": ("CheckValueForCategory without a unit", v_nounit["ok"], v1["ok"])}
        from .common import snap_value

        before = snap_value(o)
        cont = o.GetAbstractValue()
        rev = None
        if cls.startswith(("Array", "Fixed")) and len(xs) >= 2:
            # the same amounts in the opposite order (rows and the elements inside a row)
            if cls == "Array.tuples":
                rc = [tuple(reversed(t)) for t in reversed(cont)]
            elif cls == "Array.numpy":
                rc = SymArray(list(reversed(xs))) if core.is_sym(xs[0]) else __import__("numpy").array(list(reversed(xs)), dtype=float)
            else:
                rc = type(cont)(reversed(list(cont)))
            rev = type(o).CreateWithQuantity(o.GetQuantity(), rc).IsValid() if not cls.startswith("Fixed") else FixedArray(len(xs), rc, u, cat).IsValid()
        isvalid = o.IsValid()
        v1 = _verdict(o.CheckValidity)
        v2 = _verdict(o.CheckValidity)
        extra = {}
        if cls == "Scalar":
            from barril.units.scalar_validation.scalar_min_max_validator import ScalarMinMaxValidator

            e_msg, w_msg = ScalarMinMaxValidator.CreateScalarCheckErrorMsg(o, "p"), ScalarMinMaxValidator.CreateScalarCheckWarningMsg(o, "p")
            extra["same_verdict"] = ("ScalarMinMaxValidator messages", (e_msg is None, w_msg is None), (isvalid, isvalid))
        return reg | extra | {"v1": v1, "v2": v2, "isvalid": isvalid, "isvalid2": o.IsValid(), "rev": rev, "untouched": snap_value(o) == before and o.GetAbstractValue() is cont}


def _cmpz(fp):
    if fp:
        return {">": z3.fpGT, ">=": z3.fpGEQ, "<": z3.fpLT, "<=": z3.fpLEQ}
    return {">": lambda a, b: a > b, ">=": lambda a, b: a >= b, "<": lambda a, b: a < b, "<=": lambda a, b: a <= b}


def _t(v, fp):
    if fp:
        return core.lift_fp(v) if not isinstance(v, z3.ExprRef) else v
    return term(v)


def props(cfg, T, obs):
    fp = cfg["fp"]
    kind, emin, emax = cfg["lim"]
    if isinstance(obs, Raised):
        return [("validation raises only QuantityValidationError", False)]
    C = _cmpz(fp)
    if "k" in cfg:
        return props_history(cfg, T, obs, C)
    if fp:
        lo, hi, d = z3.FPVal(0.0, core.F64), z3.FPVal(10.0, core.F64), z3.FPVal(5.0, core.F64)
    else:
        lo, hi, d = T["lo"], T["hi"], T["d"]
    has_min, has_max = kind in ("min", "both"), kind in ("max", "both")
    opmin, opmax = (">" if emin else ">="), ("<" if emax else "<=")

    def within(v):
        cs = []
        if has_min:
            cs.append(C[opmin](v, lo))
        if has_max:
            cs.append(C[opmax](v, hi))
        return z3.And(*cs) if cs else z3.BoolVal(True)

    # ---- registration
    if not obs["registered"]:
        if cfg["dflt"] == "auto":
            legit = z3.BoolVal(bool(emin) or bool(emax)) if kind != "both" else z3.Or(z3.BoolVal(bool(emin) or bool(emax)), C["<"](hi, lo))
            return [("registration rejected only for a reason", legit)]
        bad = z3.Not(within(d))
        if kind == "both":
            bad = z3.Or(bad, C["<"](hi, lo))
        return [("registration rejected only when max<min or the default value violates the limits", bad)]
    dv = _t(obs["default_value"], fp)
    P = [("registered default value satisfies the category's own limits", within(dv)),
         ("registered default unit belongs to the quantity type", obs["default_unit"] in obs["qt_units"]),
         ("Scalar(category) is the default value/unit and is valid", z3.And(_t(obs["default_scalar"][0], fp) == dv if not fp else z3.fpEQ(_t(obs["default_scalar"][0], fp), dv),
                                                                    z3.BoolVal(obs["default_scalar"][1] == obs["default_unit"] and obs["default_scalar"][2] is True)))]
    if "default_other_unit" in obs:
        P.append(("the category default built in another unit of the quantity type (category + unit, or the quantity alone; Scalar and FractionScalar) is valid too",
                  all(v is True for v in obs["default_other_unit"])))
    if kind == "both" and not fp:
        P.append(("registered limits are ordered", lo <= hi))
    # ---- validation verdicts
    from .common import get_db

    db = _sdb()
    n = cfg["n"]
    xs = [T["x%d" % i] for i in range(n)]
    if cfg["cls"] == "FractionScalar.frac":
        xs = [x + z3.RealVal("3/4") for x in xs]
    conv = [oracle_convert(db, cfg["qt"], cfg["u"], cfg["du"], x) if not fp else x for x in xs]
    flat = cfg["cls"] in ("Array.list", "Array.tuple", "Array.numpy", "FixedArray.list")
    if fp and flat:
        elem_ok = [z3.Or(z3.fpIsNaN(v), within(v)) for v in conv]
    else:
        elem_ok = [within(v) for v in conv]
    want = z3.And(*elem_ok) if elem_ok else z3.BoolVal(True)
    v1, v2 = obs["v1"], obs["v2"]
    P.append(("accepted exactly when every amount, in the default unit, satisfies the limits", z3.BoolVal(v1["ok"]) == want))
    if "same_verdict" in obs:
        P.append(("the secondary limit-checking entry points give the verdict of IsValid (%s)" % obs["same_verdict"][0], obs["same_verdict"][1] == obs["same_verdict"][2]))
    if obs.get("rev") is not None:
        P.append(("the verdict does not depend on the order of the elements (rows and elements inside a row reversed)", obs["rev"] == v1["ok"]))
    if "untouched" in obs:
        P.append(("validation leaves the object and its container (contents and order) as they were", bool(obs["untouched"])))
    P.append(("IsValid agrees with CheckValidity and repeated calls give the same verdict",
              obs["isvalid"] == v1["ok"] and obs["isvalid2"] == v1["ok"] and v2["ok"] == v1["ok"]))
    if not v1["ok"]:
        op, lim = v1["op"], _t(v1["limit"], fp)
        okop = (has_min and op == opmin) or (has_max and op == opmax)
        P.append(("rejection reports an operator of a configured limit", okop and v2.get("op") == op))
        if okop:
            is_min = op in (">", ">=")
            ref = lo if is_min else hi
            same_lim = (lim == ref) if not fp else z3.fpEQ(lim, ref)
            viol = [z3.Not(C[op](v, ref)) for v in conv]
            if fp and flat:
                viol = [z3.And(z3.Not(z3.fpIsNaN(v)), z3.Not(C[op](v, ref))) for v in conv]
            P.append(("reported limit is the configured one and is really violated by some amount", z3.And(same_lim, z3.Or(*viol) if viol else z3.BoolVal(False))))
    if cfg.get("canary"):
        P.append(("canary:every registered value is accepted", v1["ok"]))
    return P


def props_history(cfg, T, obs, C):
    from .common import get_db

    if obs.get("skip"):
        return []
    kind, emin, emax = cfg["lim"]
    lo, hi = T["lo"], T["hi"]
    has_min, has_max = kind in ("min", "both"), kind in ("max", "both")
    opmin, opmax = (">" if emin else ">="), ("<" if emax else "<=")
    db = get_db("default")

    def within(v, lo=lo, hi=hi, has_min=has_min, has_max=has_max, opmin=opmin, opmax=opmax):
        cs = ([C[opmin](v, lo)] if has_min else []) + ([C[opmax](v, hi)] if has_max else [])
        return z3.And(*cs) if cs else z3.BoolVal(True)

    k = cfg["k"]
    if k == "aux_narrow_dtype":
        return [("auxiliary, concrete (not solver-decided): an Array over float32 / float16 / int numpy storage is accepted exactly when Scalars holding the same amounts are", obs["aux_bad"] == [])]
    if k == "legacy_valid_units":
        return [("a category registered with legacy-spelled valid units gets a default unit that is registered, is one of its own valid units and is accepted for the category",
                 bool(obs["registered"]) and obs["default_unit"] in obs["valid_units"] and obs["unit_ok"] is True),
                ("Scalar(category) carries that unit and the default value and is valid", z3.And(z3.BoolVal(obs["scalar"] == (obs["default_unit"], True)), term(obs["sv"]) == term(obs["default_value"])))]
    xs = [T["x%d" % i] for i in range(cfg["n"])]
    if cfg["cls"] == "Scalar" or cfg["cls"] == "FractionScalar":
        xs = xs[:1]
    conv = [oracle_convert(db, cfg["qt"], cfg["u"], "m", x) for x in xs]
    k = cfg["k"]
    if k == "clear_refill":
        want = z3.And(*[within(v) for v in conv])
        want_m = z3.And(*[within(x) for x in xs])
        return [("after Clear() and a new configuration of the same database object, objects validate against the NEW registration of the category (no quantity of the old configuration survives)",
                 z3.And(z3.BoolVal(bool(obs["valid_unit_only"])) == want, z3.BoolVal(bool(obs["valid_explicit"])) == want_m))]
    if k == "redefine":
        want = z3.And(*[within(v) for v in conv])
        return [("objects built from the unit alone validate against the REDEFINED category (no stale limits from an earlier use)", z3.BoolVal(bool(obs["valid_unit_only"])) == want),
                ("objects naming the category validate against the redefined category", z3.BoolVal(bool(obs["valid_explicit"])) == want),
                ("the unit alone still resolves to the category", obs["cat"] == "length")]
    if k == "from_category":
        pl = obs.get("plain")
        same_t = lambda a_, b_: (a_ is None and b_ is None) or (a_ is not None and b_ is not None and z3.is_true(z3.simplify(term(a_) == term(b_))))  # noqa: E731
        Pp = [("a category copied with from_category and nothing else is accepted and inherits the parent's limit values and default value",
               not isinstance(pl, str) and same_t(pl[0], pl[6]) and same_t(pl[1], pl[7]) and same_t(pl[4], pl[10]) and pl[5] is True)]  # (exclusivity flags are not inherited by design of from_category: not compared)
        if not obs["copied"]:
            return Pp  # (a refused copy with NEW limits is always safe for this property)
        dv = term(obs["default"])
        cs = []
        if obs["min"] is not None:
            cs.append(dv > term(obs["min"]) if obs["emin"] else dv >= term(obs["min"]))
        if obs["max"] is not None:
            cs.append(dv < term(obs["max"]) if obs["emax"] else dv <= term(obs["max"]))
        return Pp + [("a category copied from another one (from_category) never gets a default value outside its own limits", z3.And(*cs) if cs else True),
                ("Scalar(copied category) is valid", bool(obs["default_valid"]))]
    want2 = z3.And(*[v >= T["lo2"] for v in conv])
    return [("a copy moved to another category validates against THAT category's limits (no verdict inherited from the source)",
             z3.And(z3.BoolVal(bool(obs["copy_valid"])) == want2, z3.BoolVal(bool(obs["copy2_valid"])) == want2, z3.BoolVal(obs["copy_cat"] == "c12b"))),
            ("the source verdict follows the source category", z3.BoolVal(bool(obs["first"])) == z3.And(*[within(v) for v in conv]))]


def finding_key(cfg, name):
    if "k" in cfg:
        return "history %s %s %s[%s] %s :: %s" % (cfg["k"], cfg["cls"], cfg["qt"], cfg["u"], cfg["lim"], name)
    return "%s %s[%s<-%s] %s n=%d %s%s :: %s" % (cfg["cls"], cfg["qt"], cfg["du"], cfg["u"], cfg["lim"], cfg["n"], cfg["dflt"], " fp" if cfg["fp"] else "", name)
