"""C04 - multiply / divide: dimension exponents add, base-unit magnitudes multiply.
One * / // ** step from operands built by the real operators; symbolic: every leaf amount."""
import json
import random

import z3

from symx.check import Raised
from symx.core import approx, term, zabs

from . import exprs
from .common import first_value, leaf_class, build, dims_of, mag_of, model_dims, n_leaves, qmap, spec_str

PID = "C04"
FUNCTIONS = ["Scalar.__mul__/__truediv__/__floordiv__/__pow__/__rmul__/__rtruediv__/_DoOperation",
             "UnitDatabase.Multiply/Divide/FloorDivide/_DoOperationResultingInNewQuantity", "UnitDatabase._MatchQuantities/_ConvertToMatchedUnit",
             "Quantity.CreateDerived/_CreateDerived/GetCategoryToUnitAndExpsCopy", "ObtainQuantity (derived keys)"]
BOUNDS = {
    "quick": "values: all reals (divisors != 0 by path condition); both operands drawn from shapes %s over 3 units per type, seeded sample "
             "of 500 (shape pair, unit assignment) configurations x operators *,/,// plus a**n n<=5; exponents reach -4..4" % exprs.QUICK,
    "thorough": "values: all reals; shapes %s, 4 units per length, categories length+depth, seeded sample of 30000 configurations; a**n n<=8"
                % exprs.THOROUGH,
}
BOUNDS_ALSO = "; also: every scale-only unit of the table times / over the base unit of its quantity type (both orders); operands of the quantity type 'dimensionless' (%, ppm, -, g/kg); empty Array operands (dimension clauses); the quantity-type STRING parsed back against the exponent vector; integer-dtype ndarray auxiliary cases"
BOUNDS = {k_: v_ + BOUNDS_ALSO for k_, v_ in BOUNDS.items()}
ASSUMPTIONS = ["A-FP: floats are exact reals", "dimensional model: magnitude = value * prod(slope(tobase_unit)^exp), scale-only units",
               "numeric equality is |a-b| <= 1e-13*(|a|+|b|+1) over the reals", "A-SHIM"]
CHUNK = 6


def items(tier, seed):
    rng = random.Random(seed)
    names = exprs.QUICK if tier == "quick" else exprs.THOROUGH
    n = 500 if tier == "quick" else 30000
    nu = 3 if tier == "quick" else 4
    pool = {nm: exprs.instances(nm, n_units=nu, with_cats=(tier != "quick")) for nm in names}
    out = []
    for i in range(n):
        a, b = rng.choice(names), rng.choice(names)
        A, B = rng.choice(pool[a]), rng.choice(pool[b])
        if n_leaves(A) + n_leaves(B) > 6:
            continue
        out.append({"A": A, "B": B, "op": ["mul", "div", "fdiv"][i % 3]})
    for nm in names:
        for A in rng.sample(pool[nm], min(len(pool[nm]), 3 if tier == "quick" else 12)):
            if n_leaves(A) <= 2:
                for e in ([2, 3, 4, 5] if tier == "quick" else [1, 2, 3, 4, 5, 6, 8]):
                    out.append({"A": A, "B": None, "op": "pow", "n": e})
            out.append({"A": A, "B": A, "op": "self_div"})
    for nm in names:
        for A in rng.sample(pool[nm], min(len(pool[nm]), 2 if tier == "quick" else 10)):
            B = rng.choice(pool[rng.choice(names)])
            if n_leaves(A) + n_leaves(B) <= 5:
                for o in ("dimless_div", "dimless_fdiv", "dimless_mul", "div_dimless"):
                    out.append({"A": A, "B": B, "op": o})
    for i in range(20 if tier == "quick" else 300):
        A, B = rng.choice(pool[rng.choice(names)]), rng.choice(pool[rng.choice(names)])
        if n_leaves(A) + n_leaves(B) <= 5 and "pow" not in json.dumps([A, B]):
            out.append({"A": A, "B": B, "op": rng.choice(["mul", "div"]), "arr": rng.choice(["list", "numpy", "tuple"]), "fixed_right": True})
    for i, c in enumerate(out):
        if i % 5 == 0 and c["op"] in ("mul", "div", "self_div") and "pow" not in json.dumps(c):
            c["arr"] = ["numpy", "list", "tuple"][(i // 5) % 3]
    # every scale-only unit of the table against the base unit of its quantity type, both orders (unit matching inside one quantity type)
    from .common import get_db

    db = get_db("default")
    for qt in db.GetQuantityTypes():
        if qt not in db.categories_to_quantity_types or qt == "dimensionless":
            continue
        us = [u for u in db.GetUnits(qt) if getattr(db.GetInfo(qt, u).tobase, "__a__", 0.0) == 0.0 and getattr(db.GetInfo(qt, u).tobase, "__d__", 0.0) == 0.0]
        if not us or us[0] != db.GetUnits(qt)[0]:
            continue
        low = {}
        for u in us:
            low.setdefault(u.lower(), []).append(u)
        for grp in low.values():  # symbols that differ only in case (mPa / MPa ...), both orders, both operators
            for u in grp:
                for v in grp:
                    if u != v:
                        out.append({"A": ["leaf", u, qt], "B": ["leaf", v, qt], "op": "table", "sub": "mul", "qt": qt})
                        out.append({"A": ["leaf", u, qt], "B": ["leaf", v, qt], "op": "table", "sub": "div", "qt": qt})
        for j, u in enumerate(us[1:]):
            out.append({"A": ["leaf", u, qt], "B": ["leaf", us[0], qt], "op": "table", "sub": ("mul", "div")[j % 2], "qt": qt})
            out.append({"A": ["leaf", us[0], qt], "B": ["leaf", u, qt], "op": "table", "sub": ("div", "mul")[j % 2], "qt": qt})
    # an operand of the quantity type 'dimensionless' (%, ppm, -) is an ordinary factor: its exponent and its unit factor stay in the result
    for du in ("%", "ppm", "-", "g/kg"):
        for nm in ("len", "vel", "area", "time"):
            A = rng.choice(pool[nm]) if nm in pool else exprs.instances(nm, n_units=2)[0]
            for sub_ in ("x*p", "p*x", "x/p", "p/x"):
                out.append({"A": A, "B": ["leaf", du, "dimensionless"], "op": "dimless_type", "sub": sub_, "arr": (None, "list", "numpy")[len(out) % 3]})
    # empty Array operands: only the dimension clauses apply
    for i in range(30 if tier == "quick" else 400):
        A, B = rng.choice(pool[rng.choice(names)]), rng.choice(pool[rng.choice(names)])
        if n_leaves(A) + n_leaves(B) <= 5 and "pow" not in json.dumps([A, B]):
            out.append({"A": A, "B": B, "op": ["mul", "div", "fdiv", "self_div"][i % 4], "arr": ["list", "tuple", "numpy"][i % 3], "empty": True})
    for op in ("mul", "div", "rdiv"):
        for kb in ("list", "tuple"):
            out.append({"A": ["leaf", "m", "length"], "B": ["leaf", "s", "time"], "op": "aux_int_dtype", "aop": op, "kb": kb})
    for i, c in enumerate(out):
        if c["op"] in ("pow", "self_div") and i % 2 == 0:
            c["tuple_prelude"] = True
    for c in out:
        if c["op"] == "mul" and not c.get("arr"):
            c["canary"] = True
            break
    rng.shuffle(out)
    return out


def inputs(cfg):
    if cfg["op"] == "aux_int_dtype":
        return {"x0": "real"}
    nb = n_leaves(cfg["B"]) if cfg["B"] is not None and cfg["op"] != "self_div" else 0
    if cfg["op"] in ("table", "dimless_type"):
        nb = 1  # (dimless_* ops use both operands)
    return {"x%d" % i: "real" for i in range(n_leaves(cfg["A"]) + nb)}


def _vq(o):
    return (first_value(o), qmap(o))


def _qt_dims(text):
    """exponent per quantity type read back from the quantity-type STRING ('a * (b) ** 2 / c'); None when it does not parse"""
    import re

    if text.count(" / ") > 1:
        return None
    num, _, den = text.partition(" / ")
    d = {}
    for part, sign in ((num, 1), (den, -1)):
        if not part or (part == "1" and sign == 1):
            continue
        for f in part.split(" * "):
            m = re.fullmatch(r"\((.+)\) \*\* (-?\d+)", f)
            name, e = (m.group(1), int(m.group(2))) if m else (f, 1)
            d[name] = d.get(name, 0) + sign * e
    return {k: v for k, v in d.items() if v != 0}


def run(cfg, V):
    if cfg["op"] == "aux_int_dtype":
        import numpy
        from barril.units import Array, Scalar

        ia, fb = [2, 3, 4], [0.5, 1.25, 2.75]
        A = Array(numpy.array(ia), "m")
        B = Array(fb if cfg["kb"] == "list" else tuple(fb), "s")
        f = {"mul": lambda a, b: a * b, "div": lambda a, b: a / b, "rdiv": lambda a, b: b / a}[cfg["aop"]]
        r = f(A, B)
        want = [f(Scalar(float(a), "m"), Scalar(b, "s")) for a, b in zip(ia, fb)]
        return {"aux": ([float(v) for v in r.GetValues()], [float(w.GetValue()) for w in want], r.GetUnit(), want[0].GetUnit())}
    if cfg.get("tuple_prelude"):
        # history: the powers of the leaf units were first requested as derived quantities whose entries are (unit, exponent) TUPLES
        from collections import OrderedDict
        from barril.units import Quantity

        def _leaves(sp):
            return [sp] if sp[0] == "leaf" else [x for s_ in sp[1:] if isinstance(s_, list) for x in _leaves(s_)] if sp[0] != "num" else []

        for _lf in _leaves(cfg["A"]):
            for e_ in (2, 3, -1):
                try:
                    Quantity.CreateDerived(OrderedDict([(_lf[2], (_lf[1], e_))]))
                except Exception:  # noqa
                    pass
    ctr = [0]
    cls = leaf_class(cfg.get("arr"), bool(cfg.get("empty")))
    A = build(cfg["A"], V, ctr, cls)
    op = cfg["op"]
    if op == "pow":
        r = A ** cfg["n"]
        return {"A": _vq(A), "r": _vq(r), "cls": type(r).__name__}
    if op == "self_div":
        r = A / A
        return {"A": _vq(A), "r": _vq(r), "cls": type(r).__name__, "qt_str": r.GetQuantityType()}
    if op in ("table", "dimless_type"):
        from barril.units import Scalar

        if op == "table":
            A = Scalar(V["x0"], cfg["A"][1], cfg["qt"])
            B = Scalar(V["x1"], cfg["B"][1], cfg["qt"])
            r = A * B if cfg["sub"] == "mul" else A / B
            return {"A": _vq(A), "B": _vq(B), "r": _vq(r), "comm": _vq(B * A) if cfg["sub"] == "mul" else None, "back": _vq(r / B if cfg["sub"] == "mul" else r * B), "cls": type(r).__name__}
        P_ = leaf_class(cfg.get("arr"))(V["x%d" % (ctr[0])], cfg["B"][1], "dimensionless")
        r = {"x*p": lambda: A * P_, "p*x": lambda: P_ * A, "x/p": lambda: A / P_, "p/x": lambda: P_ / A}[cfg["sub"]]()
        return {"A": _vq(A), "B": _vq(P_), "r": _vq(r), "cls": type(r).__name__}
    B = build(cfg["B"], V, ctr, cls)
    if cfg.get("fixed_right"):
        from barril.units import FixedArray

        bv = B.GetAbstractValue()
        B = FixedArray.CreateWithQuantity(B.GetQuantity(), [bv[0], bv[0]], dimension=2)
        av = A.GetAbstractValue()
        A = type(A).CreateWithQuantity(A.GetQuantity(), type(av)([av[0], av[0]]) if not hasattr(av, "dtype") else av.repeat(2) if av.dtype != object else type(av)([av[0], av[0]]))
    if op.startswith("dimless") or op == "div_dimless":
        one = A / A  # a dimensionless Scalar obtained by cancellation
        r = {"dimless_div": lambda: one / B, "dimless_fdiv": lambda: one // B, "dimless_mul": lambda: one * B, "div_dimless": lambda: B / one}[op]()
        return {"A": _vq(A), "B": _vq(B), "one": _vq(one), "r": _vq(r), "cls": type(r).__name__}
    out = {"A": _vq(A), "B": _vq(B)}
    if op == "mul":
        r = A * B
        out["comm"] = _vq(B * A)
        out["back"] = _vq(r / B)
    elif op == "div":
        r = A / B
        out["back"] = _vq(r * B)
    else:
        r = A // B
        q = A / B
        out["q"] = _vq(q)
        out["same_q"] = r.GetQuantity() == q.GetQuantity()
    out["r"] = _vq(r)
    out["cls"] = type(r).__name__
    out["qt_str"] = r.GetQuantityType()
    out["qt_str_A"] = A.GetQuantityType()
    return out


def _addd(a, b, sign):
    d = dict(a)
    for k, v in b.items():
        d[k] = d.get(k, 0) + sign * v
    return {k: v for k, v in d.items() if v != 0}


def _wellformed(qm):
    """no zero exponent, no quantity type whose exponents cancel but is still listed"""
    if any(ex == 0 for _c, _u, ex in qm):
        return False
    d = dims_of(qm)
    from barril.units import UnitDatabase

    db = UnitDatabase.GetSingleton()
    present = {db.GetCategoryQuantityType(c) for c, _u, _e in qm}
    return present == set(d)


def props(cfg, T, obs):
    if isinstance(obs, Raised):
        if obs.isa(ZeroDivisionError):
            return []
        return [("* / // ** never raise for non-zero divisors", False)]
    op = cfg["op"]
    if op == "aux_int_dtype":
        got, want, unit, wunit = obs["aux"]
        return [("auxiliary, concrete (not solver-decided): integer-dtype ndarray * or / fractional list equals the Scalar results",
                 unit == wunit and len(got) == 3 and all(abs(a - b) <= 1e-12 * (abs(a) + abs(b) + 1) for a, b in zip(got, want)))]
    if op == "table":
        qt = cfg["qt"]
        mA, mB, mr = mag_of(*obs["A"]), mag_of(*obs["B"]), mag_of(*obs["r"])
        dr = dims_of(obs["r"][1])
        P = [("result is a Scalar", obs["cls"] == "Scalar"), ("zero exponents disappear", _wellformed(obs["r"][1]))]
        if cfg["sub"] == "mul":
            P += [("dims(a*b)=dims(a)+dims(b) (table units)", dr == {qt: 2}), ("mag(a*b)~mag(a)*mag(b) (table units, magnitudes from the to-base factors)", approx(mr, mA * mB)),
                  ("a*b~b*a (table units)", approx(mr, mag_of(*obs["comm"]))), ("(a*b)/b~a (table units)", approx(mag_of(*obs["back"]), mA))]
        else:
            P += [("a/b of one quantity type is dimensionless (table units)", dr == {}), ("mag(a/b)~mag(a)/mag(b) (table units, magnitudes from the to-base factors)", approx(mr, mA / mB)),
                  ("(a/b)*b~a (table units)", approx(mag_of(*obs["back"]), mA))]
        return P
    if op == "dimless_type":
        mA, mB, mr = mag_of(*obs["A"]), mag_of(*obs["B"]), mag_of(*obs["r"])
        dA, dr = dims_of(obs["A"][1]), dims_of(obs["r"][1])
        sub_ = cfg["sub"]
        want_d = _addd(dA, {"dimensionless": 1}, 1) if sub_ in ("x*p", "p*x") else _addd(dA, {"dimensionless": 1}, -1) if sub_ == "x/p" else _addd({"dimensionless": 1}, dA, -1)
        want_m = mA * mB if sub_ in ("x*p", "p*x") else mA / mB if sub_ == "x/p" else mB / mA
        return [("an operand of the quantity type 'dimensionless' keeps its exponent in the result", dr == want_d),
                ("... and its unit factor in the magnitude (50 % of 2 m is 1 m)", approx(mr, want_m)), ("result class", obs["cls"] == ("Array" if cfg.get("arr") else "Scalar"))]
    if cfg.get("empty"):
        dA, dr = dims_of(obs["A"][1]), dims_of(obs["r"][1])
        P = [("result is an Array", obs["cls"] == "Array"), ("zero exponents disappear", _wellformed(obs["r"][1])), ("operand dims match the dimensional model", dA == model_dims(cfg["A"]))]
        if op == "self_div":
            return P + [("a/a is dimensionless (empty operands)", dr == {} and obs["r"][1] == [])]
        dB = dims_of(obs["B"][1])
        P.append(("dims(a op b)=dims(a)+-dims(b) (empty operands)", dr == _addd(dA, dB, 1 if op == "mul" else -1)))
        if "comm" in obs:
            P.append(("a*b and b*a have the same dimensions (empty operands)", dims_of(obs["comm"][1]) == dr))
        if "back" in obs:
            P.append(("(a op b) inverse-op b has a's dimensions (empty operands)", dims_of(obs["back"][1]) == dA))
        P.append(("the quantity-type string lists exactly the exponents of the result", _qt_dims(obs["qt_str"]) == dr or not dr))
        return P
    mA, mr = mag_of(*obs["A"]), mag_of(*obs["r"])
    dA, dr = dims_of(obs["A"][1]), dims_of(obs["r"][1])
    P = [("result is a Scalar (Array / FixedArray for Array operands)", obs["cls"] == ("Array" if cfg.get("arr") else "Scalar")), ("zero exponents disappear", _wellformed(obs["r"][1])),
         ("operand dims match the dimensional model", dA == model_dims(cfg["A"]))]
    if op == "pow":
        n = cfg["n"]
        want = mA
        for _ in range(n - 1):
            want = want * mA
        P += [("dims(a**n)=n*dims(a)", dr == {k: v * n for k, v in dA.items()}), ("mag(a**n)~mag(a)**n", approx(mr, want))]
        return P
    if op == "self_div":
        P += [("a/a is dimensionless", dr == {} and obs["r"][1] == []), ("a/a = 1", approx(mr, 1))]
        return P
    mB, dB = mag_of(*obs["B"]), dims_of(obs["B"][1])
    if "qt_str" in obs and dr:
        P.append(("the quantity-type string lists exactly the exponents of the result", _qt_dims(obs["qt_str"]) == dr and (not dA or _qt_dims(obs["qt_str_A"]) == dA)))
    if op.startswith("dimless") or op == "div_dimless":
        neg = {k: -v for k, v in dB.items()}
        one = mag_of(*obs["one"])
        if op == "dimless_mul":
            P += [("(a/a)*b has b's dimension and magnitude", z3.And(z3.BoolVal(dr == dB), approx(mr, one * mB)))]
        elif op == "div_dimless":
            P += [("b/(a/a) has b's dimension and magnitude", z3.And(z3.BoolVal(dr == dB), approx(mr, mB / one)))]
        elif op == "dimless_div":
            P += [("(a/a)/b has the reciprocal dimension of b and magnitude 1/mag(b)", z3.And(z3.BoolVal(dr == neg), approx(mr, one / mB)))]
        else:
            rv_ = term(obs["r"][0])
            P += [("(a/a)//b has the reciprocal dimension of b and a floored value", z3.And(z3.BoolVal(dr == neg), rv_ == z3.ToReal(z3.ToInt(rv_))))]
        return P
    if op == "mul":
        P += [("dims(a*b)=dims(a)+dims(b)", dr == _addd(dA, dB, 1)), ("mag(a*b)~mag(a)*mag(b)", approx(mr, mA * mB)),
              ("a*b~b*a", z3.And(approx(mr, mag_of(*obs["comm"])), z3.BoolVal(dims_of(obs["comm"][1]) == dr))),
              ("(a*b)/b~a", z3.And(approx(mag_of(*obs["back"]), mA), z3.BoolVal(dims_of(obs["back"][1]) == dA)))]
        if cfg.get("canary"):
            P.append(("canary:mag(a*b)~mag(a)+mag(b)", approx(mr, mA + mB)))
    elif op == "div":
        P += [("dims(a/b)=dims(a)-dims(b)", dr == _addd(dA, dB, -1)), ("mag(a/b)~mag(a)/mag(b)", approx(mr, mA / mB)),
              ("(a/b)*b~a", z3.And(approx(mag_of(*obs["back"]), mA), z3.BoolVal(dims_of(obs["back"][1]) == dA)))]
    else:
        rv_, qv = term(obs["r"][0]), term(obs["q"][0])
        P += [("dims(a//b)=dims(a)-dims(b)", dr == _addd(dA, dB, -1)), ("a//b has the quantity of a/b", bool(obs["same_q"])),
              ("a//b = floor(a/b)", z3.And(rv_ <= qv + rv_ * 0, qv < rv_ + 1, rv_ == z3.ToReal(z3.ToInt(rv_)))),
              ("mag(a/b)~mag(a)/mag(b) (//)", approx(mag_of(*obs["q"]), mA / mB))]
    return P


def finding_key(cfg, name):
    sym = {"mul": "*", "div": "/", "fdiv": "//", "pow": "**", "self_div": "/self", "dimless_div": "(a/a)/", "dimless_fdiv": "(a/a)//", "dimless_mul": "(a/a)*", "div_dimless": "b/(a/a)", "aux_int_dtype": "aux_int_dtype " + str(cfg.get("aop")) + " " + str(cfg.get("kb")), "table": "table " + str(cfg.get("sub")), "dimless_type": str(cfg.get("sub"))}[cfg["op"]] + (" empty" if cfg.get("empty") else "") + (" FixedArray right" if cfg.get("fixed_right") else "") + (" [Array.%s]" % cfg["arr"] if cfg.get("arr") else "")
    return "%s %s %s :: %s" % (spec_str(cfg["A"]), sym, spec_str(cfg["B"]) if cfg["B"] else cfg.get("n"), name)
