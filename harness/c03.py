"""C03 - addition and subtraction are physically sound, also for derived units.
One + / - step from operands built by the real operators; symbolic: every leaf amount."""
import json
import random

import z3

from symx.check import Raised
from symx.core import approx, zabs

from . import exprs
from .common import first_value, leaf_class, build, dims_of, get_db, mag_of, n_leaves, oracle_convert, qmap, seeded_sample, spec_str

PID = "C03"
FUNCTIONS = ["Scalar.__add__/__sub__/__radd__/__rsub__/_DoOperation", "UnitDatabase.Sum/Subtract/_DoOperationWithSameQuantity",
             "UnitDatabase._MatchQuantities", "UnitDatabase.Convert", "Quantity.CreateCopyInstance/MakeCopy/_CreateDerived",
             "operands built by Scalar.__mul__/__truediv__/__rtruediv__/__pow__ (UnitDatabase.Multiply/Divide)"]
BOUNDS = {
    "quick": "values: all reals; operand shapes %s over units m,cm,km / s,min,h / kg,g,lbm (3 per type; categories length+depth where the "
             "shape names them), both operands of one shape with independently chosen units, seeded sample of 40 unit assignments per shape; "
             "exponents -2..2; operators + and -" % exprs.QUICK,
    "thorough": "values: all reals; operand shapes %s (exponents -3..3, depth <= 3), units m,cm,km,ft / s,min,h / kg,g,lbm, categories "
                "length+depth, seeded sample of 1500 unit assignments per shape and 20000 exponent-1 table pairs" % exprs.THOROUGH,
}
BOUNDS_ALSO = '; also: three shapes whose factor cancels across two categories of one quantity type; augmented forms a += b / a -= b in every configuration; every unit of the table against the base unit of its quantity type in both orders, and all case-variant unit pairs, with base magnitudes read from the to-base factors alone'
BOUNDS = {k_: v_ + BOUNDS_ALSO for k_, v_ in BOUNDS.items()}
ASSUMPTIONS = ["A-FP: floats are exact reals", "dimensional model: magnitude = value * prod(slope(tobase_unit)^exp), scale-only units",
               "numeric equality is |a-b| <= 1e-13*(|a|+|b|+1) over the reals", "A-SHIM"]
CHUNK = 8


def items(tier, seed):
    rng = random.Random(seed)
    names = exprs.QUICK if tier == "quick" else exprs.THOROUGH
    per = 40 if tier == "quick" else 1500
    nu = 3 if tier == "quick" else 4
    out = []
    for name in names:
        ia = exprs.instances(name, n_units=nu, with_cats=(tier != "quick"))
        pairs = [(a, b) for a in ia for b in ia]
        if len(pairs) > per:
            pairs = rng.sample(pairs, per)
        for a, b in pairs:
            out.append({"t": name, "A": a, "B": b, "op": rng.choice(["add", "sub"]) if len(pairs) >= per else "add"})
            if len(pairs) < per:
                out.append({"t": name, "A": a, "B": b, "op": "sub"})
    # operands of equal dimensions built in a different factor order / through different shapes
    for grp in exprs.EQUAL_DIMS:
        if not all(g in names for g in grp):
            continue
        for ta in grp:
            for tb in grp:
                if ta == tb:
                    continue
                ia, ib = exprs.instances(ta, n_units=2), exprs.instances(tb, n_units=2)
                for _ in range(6 if tier == "quick" else 60):
                    out.append({"t": ta + "|" + tb, "A": rng.choice(ia), "B": rng.choice(ib), "op": rng.choice(["add", "sub"])})
    # empty Array operands: only the quantity clauses apply
    for kind in ("list", "tuple"):
        for ta in ("len", "area", "vel"):
            ia = exprs.instances(ta, n_units=3, with_cats=True)
            for _ in range(4 if tier == "quick" else 30):
                out.append({"t": ta, "A": rng.choice(ia), "B": rng.choice(ia), "op": rng.choice(["add", "sub"]), "arr": kind, "empty": True})
    # exponent-1 operands over the whole table (affine units included): value(a+-b) = value(a) +- convert(b -> a's unit)
    db = get_db("default")
    allp = []
    for qt in db.GetQuantityTypes():
        if qt not in db.categories_to_quantity_types:
            continue
        us = db.GetUnits(qt)
        allp += [(qt, u, v) for u in us for v in us]
    simple = [("temperature", "degC", "degF"), ("temperature", "K", "degC"), ("temperature", "degF", "K"), ("temperature", "degC", "degC"),
              ("pressure", "psig", "Pa"), ("pressure", "bar", "psig"), ("length", "m", "ft")]
    # unit symbols of one quantity type that differ only in case (mPa / MPa, mg / Mg ...) are always in, both orders
    for qt in db.GetQuantityTypes():
        if qt not in db.categories_to_quantity_types:
            continue
        low = {}
        for u in db.GetUnits(qt):
            low.setdefault(u.lower(), []).append(u)
        for grp in low.values():
            simple += [(qt, u, v) for u in grp for v in grp if u != v]
    # every unit of the table against the base unit of its quantity type, both orders (one wrong coefficient in one row is enough to break a sum)
    for qt in db.GetQuantityTypes():
        if qt in db.categories_to_quantity_types:
            us = db.GetUnits(qt)
            simple += [(qt, u, us[0]) for u in us[1:]] + [(qt, us[0], u) for u in us[1:]]
    # every ordered pair in which one unit has an offset (temperature, gauge pressures), with every container kind round-robin
    affine_pairs = []
    for qt in db.GetQuantityTypes():
        if qt not in db.categories_to_quantity_types:
            continue
        us = db.GetUnits(qt)
        aff = [u for u in us if getattr(db.GetInfo(qt, u).tobase, "__a__", 0.0) != 0.0]
        affine_pairs += [(qt, u, v) for u in us for v in us if u != v and (u in aff or v in aff)]
    n_plain = len(simple)
    simple += affine_pairs
    simple += seeded_sample(allp, 300 if tier == "quick" else 20000, seed)
    affine_set = set(affine_pairs)
    for qt, u, v in simple:
        out.append({"t": "simple", "qt": qt, "A": ["leaf", u, qt], "B": ["leaf", v, qt], "op": ["add", "sub"][len(out) % 2]})
        if (qt, u, v) in affine_set:
            out[-1]["arr"] = [None, "numpy", "list", "tuple"][len(out) % 4]
    for i, c in enumerate(out):
        if i % 5 == 0 and c["t"] != "simple" and "pow" not in json.dumps(c) and not c.get("arr"):
            c["arr"] = ["numpy", "list", "tuple"][(i // 5) % 3]
    for i, c in enumerate(out):
        if i % 3 == 1:
            c["prelude"] = True  # history: operations with a unit-less right operand come first (plain number, dimensionless Scalar, failing op)
    for op in ("add", "sub"):
        for kb in ("list", "tuple"):
            out.append({"t": "aux_int_dtype", "A": ["leaf", "m", "length"], "B": ["leaf", "cm", "length"], "op": op, "kb": kb})
    out[0]["canary"] = True
    for c in out:
        if c["t"] == "area" and c["A"] != c["B"]:
            c["canary"] = True
            break
    rng.shuffle(out)
    return out


def inputs(cfg):
    return {"x%d" % i: "real" for i in range(max(n_leaves(cfg["A"]) + n_leaves(cfg["B"]), 1))}


def _vq(o):
    return (first_value(o), qmap(o))


def _same_vq(a, b):
    from symx.core import term

    return a[1] == b[1] and (a[0] is b[0] or (a[0] is not None and b[0] is not None and z3.is_true(z3.simplify(term(a[0]) == term(b[0])))))


def _prelude(V):
    from barril.units import Array, Scalar, UnitsError

    try:
        Scalar(1.0, "m") + Scalar(1.0, "s")
    except UnitsError:
        pass
    Scalar(3.0, "h") + Scalar.CreateEmptyScalar(2.0)
    Array([1.0], "kg") / Array.CreateEmptyArray([2.0])
    Array((1.0,), "km") + 1.5
    Scalar(3.0, "ft") * Scalar.CreateEmptyScalar(2.0)
    Array([1.0, 2.0], "m") * 2.0  # the LAST operation before the sum has a unit-less right operand


def run(cfg, V):
    if cfg["t"] == "aux_int_dtype":
        import numpy
        from barril.units import Array, Scalar

        ia, fb = [1, 2, 3], [0.5, 1.25, 2.75]
        A = Array(numpy.array(ia), "m")
        B = Array(fb if cfg["kb"] == "list" else tuple(fb), "cm")
        r = A + B if cfg["op"] == "add" else A - B
        want = [(Scalar(float(a), "m") + Scalar(b, "cm")).GetValue() if cfg["op"] == "add" else (Scalar(float(a), "m") - Scalar(b, "cm")).GetValue() for a, b in zip(ia, fb)]
        return {"aux": ([float(v) for v in r.GetValues()], [float(w) for w in want], r.GetUnit())}
    if cfg.get("prelude"):
        _prelude(V)
    ctr = [0]
    cls = leaf_class(cfg.get("arr"), bool(cfg.get("empty")))
    A = build(cfg["A"], V, ctr, cls)
    B = build(cfg["B"], V, ctr, cls)
    import operator

    before = (_vq(A), _vq(B))
    if cfg["op"] == "add":
        r = A + B
        back = r - B
        comm = B + A
        inpl = operator.iadd(A, B)
    else:
        r = A - B
        back = r + B
        comm = None
        inpl = operator.isub(A, B)
    return {"inpl": _vq(inpl), "inpl_new": inpl is not A and inpl is not B, "kept": _same_vq(before[0], _vq(A)) and _same_vq(before[1], _vq(B)), "A": _vq(A), "B": _vq(B), "r": _vq(r), "back": _vq(back), "comm": _vq(comm) if comm is not None else None,
            "same_q": r.GetQuantity() == A.GetQuantity(), "back_same_q": back.GetQuantity() == A.GetQuantity(),
            "cls": type(r).__name__}


def props(cfg, T, obs):
    if isinstance(obs, Raised):
        if obs.isa(ZeroDivisionError):
            return []  # a zero divisor while BUILDING an operand: legitimate outcome, nothing to claim
        return [("dimension-compatible +/- does not raise", False)]
    if cfg["t"] == "aux_int_dtype":
        got, want, unit = obs["aux"]
        return [("auxiliary, concrete (not solver-decided): integer-dtype ndarray +/- fractional list equals the Scalar results",
                 unit == "m" and len(got) == 3 and all(abs(a - b) <= 1e-12 * (abs(a) + abs(b) + 1) for a, b in zip(got, want)))]
    if cfg["t"] == "simple":
        db = get_db("default")
        u, v = cfg["A"][1], cfg["B"][1]
        b_in_a = oracle_convert(db, cfg["qt"], v, u, T["x1"])
        want = T["x0"] + b_in_a if cfg["op"] == "add" else T["x0"] - b_in_a
        sc = zabs(T["x0"]) + zabs(b_in_a) + 1
        P = [("result is a Scalar (Array for Array operands)", obs["cls"] == ("Array" if cfg.get("arr") else "Scalar")),
             ("result has the left operand's units and categories", bool(obs["same_q"]) and obs["r"][1] == obs["A"][1]),
             ("value(a+-b) ~ value(a) +- value(b re-expressed in a's unit)", approx(obs["r"][0], want, sc)),
             ("(a+-b)-+b ~ a (value)", z3.And(approx(obs["back"][0], T["x0"], sc), z3.BoolVal(bool(obs["back_same_q"])))),
             ("the augmented forms a += b / a -= b give the same amount and quantity as a + b / a - b, as a new object, operands untouched",
              z3.And(approx(obs["inpl"][0], want, sc), z3.BoolVal(obs["inpl"][1] == obs["r"][1] and bool(obs["inpl_new"]) and bool(obs["kept"]))))]
        iu, iv = db.GetInfo(cfg["qt"], u), db.GetInfo(cfg["qt"], v)
        if all(getattr(i.tobase, "__a__", 0.0) == 0.0 and getattr(i.tobase, "__d__", 0.0) == 0.0 for i in (iu, iv)):
            # scale-only units: the same statement in base-unit magnitudes taken from the to-base factors ALONE (a row whose two directions disagree shows here)
            from .common import slope_of
            from symx.core import term

            ku, kv = slope_of(iu.tobase), slope_of(iv.tobase)
            ma, mb = T["x0"] * ku, T["x1"] * kv
            scm = zabs(ma) + zabs(mb) + zabs(ku)
            P.append(("base-unit magnitude of a+-b is magnitude(a) +- magnitude(b), magnitudes read with each unit's to-base factor",
                      approx(term(obs["r"][0]) * ku, ma + mb if cfg["op"] == "add" else ma - mb, scm)))
            if obs["comm"] is not None:
                P.append(("a+b and b+a are the same physical amount (to-base factors)", approx(term(obs["r"][0]) * ku, term(obs["comm"][0]) * kv, scm)))
        return P
    if cfg.get("empty"):
        return [("result is an Array", obs["cls"] == "Array"), ("a += b / a -= b build the same quantity as a + b / a - b", obs["inpl"][1] == obs["r"][1]),
                ("result has the left operand's units and categories (empty operands)", bool(obs["same_q"]) and obs["r"][1] == obs["A"][1] and bool(obs["back_same_q"]))]
    mA, mB, mr, mback = (mag_of(*obs[k]) for k in ("A", "B", "r", "back"))
    want = mA + mB if cfg["op"] == "add" else mA - mB
    sc = zabs(mA) + zabs(mB) + 1  # rounding of each operand is relative to the operand, not to the (possibly cancelling) sum
    P = [
        ("result is a Scalar (Array for Array operands)", obs["cls"] == ("Array" if cfg.get("arr") else "Scalar")),
        ("result has the left operand's units and categories", bool(obs["same_q"]) and obs["r"][1] == obs["A"][1]),
        ("mag(a+-b)~mag(a)+-mag(b)", approx(mr, want, sc)),
        ("(a+-b)-+b~a", z3.And(approx(mback, mA, sc), z3.BoolVal(bool(obs["back_same_q"])))),
    ]
    if obs["comm"] is not None:
        P.append(("a+b~b+a", approx(mr, mag_of(*obs["comm"]), sc)))
    P.append(("the augmented forms a += b / a -= b give the same amount and quantity as a + b / a - b, as a new object, operands untouched",
              z3.And(approx(mag_of(*obs["inpl"]), mr, sc), z3.BoolVal(obs["inpl"][1] == obs["r"][1] and bool(obs["inpl_new"]) and bool(obs["kept"])))))
    if cfg.get("canary"):
        P.append(("canary:a+-b~a", approx(mr, mA)))
    return P


def finding_key(cfg, name):
    return "%s %s %s%s%s :: %s" % (spec_str(cfg["A"]), "+" if cfg["op"] == "add" else "-", spec_str(cfg["B"]), " [Array.%s]" % cfg["arr"] if cfg.get("arr") else "",
                                   (" empty" if cfg.get("empty") else "") + (" after unit-less prelude" if cfg.get("prelude") else ""), name)
