"""C10 - Array results equal element-wise Scalar results for every container kind.
Symbolic: every element. Enumerated: operand quantities (simple/derived), five operators, container
kinds on both sides, lengths 0..3 on each side (equal and unequal)."""
import itertools
import random

import z3

from symx import core
from symx.check import Raised
from symx.core import approx, term
from symx.shims import SymArray

def _qsig(o):
    """the composing map of a result plus the caption of its quantity (two results describe the same quantity only if both agree)"""
    from .common import qmap as _qm

    q = o.GetQuantity() if hasattr(o, "GetQuantity") else o
    return (_qm(o), q.GetUnknownCaption())


from .common import get_db, oracle_convert, qmap

PID = "C10"
FUNCTIONS = ["Array._DoOperation (vectorised numpy branch vs per-element branch, result container)", "_ValueGenerator (pairing, tuple detection, length check)",
             "Array.GetAbstractValue/GetValues(unit)", "Array.FromScalars", "UnitDatabase.Sum/Subtract/Multiply/Divide/FloorDivide/_MatchQuantities",
             "Scalar operators (oracle: the real Scalar operator per element, same run)"]
QUANTS = {"m": ("leaf", "m", "length"), "cm": ("leaf", "cm", "length"), "cm_depth": ("leaf", "cm", "depth"), "s": ("leaf", "s", "time"), "degC": ("leaf", "degC", "temperature"),
          "K": ("leaf", "K", "temperature"), "m2": ("sq", "m", "length"), "cm2": ("sq", "cm", "length"), "m_per_s": ("per", "m", "s"), "km_per_h": ("per", "km", "h")}
OPS = ["add", "sub", "mul", "div", "fdiv"]
KINDS = ["list", "tuple", "numpy"]
BOUNDS = {
    "quick": "values: all reals; operand quantities %s; 5 operators; 3x3 container kinds; equal lengths 0..3 and unequal length pairs up to 3; seeded 900 configurations "
             "+ all unequal-length cases; FromScalars and GetValues(unit) for lengths 0..3" % list(QUANTS),
    "thorough": "every (quantity pair, operator, container pair, length pair <= 3) combination",
}
BOUNDS_ALSO = '; also: every op configuration evaluates the same operand objects twice; operations after IsValid() in a category with limits; two databases defining one unit name differently used one after the other; FixedArray.IndexAsScalar against the Scalar conversions; captioned unknown quantity with numbers (quantity comparison includes the caption)'
BOUNDS = {k_: v_ + BOUNDS_ALSO for k_, v_ in BOUNDS.items()}
ASSUMPTIONS = ["A-FP", "A-NP (numpy branch executed on object arrays of proxies, incl. broadcasting rules of equal-length 1-D arrays only)",
               "oracle: the REAL Scalar operator applied to corresponding elements in the same run (shared UnitDatabase operations are checked against the "
               "independent dimensional model by C03/C04)"]
CHUNK = 12


def items(tier, seed):
    rng = random.Random(seed)
    out = []
    combos = []
    for a, b in itertools.product(QUANTS, QUANTS):
        for op in OPS:
            for ka, kb in itertools.product(KINDS, KINDS):
                for n in range(0, 4):
                    combos.append({"k": "op", "a": a, "b": b, "op": op, "ka": ka, "kb": kb, "n": n, "m": n})
    if tier == "quick":
        combos = rng.sample(combos, 900)
    out += combos
    uneq = [(n, m) for n in range(0, 4) for m in range(0, 4) if n != m]
    for (n, m) in uneq:
        for ka, kb in itertools.product(KINDS, KINDS):
            for op in (OPS if tier != "quick" else [rng.choice(OPS)]):
                out.append({"k": "op", "a": "m", "b": rng.choice(["cm", "m", "s"]), "op": op, "ka": ka, "kb": kb, "n": n, "m": m})
    for n in range(0, 4):
        for ka in KINDS:
            out.append({"k": "getvalues", "a": "m", "ka": ka, "n": n, "to": "km"})
            out.append({"k": "getvalues", "a": "degC", "ka": ka, "n": n, "to": "degF"})
        out.append({"k": "fromscalars", "n": n})
    for ka in KINDS:
        for order in (0, 1):
            out.append({"k": "two_databases", "ka": ka, "order": order, "n": 2})
    for op in ("add", "sub", "mul"):  # zero divisors are outside the claim (A-NP), so no division here
        for ka in KINDS:
            out.append({"k": "op_after_validation", "op": op, "ka": ka, "kb": KINDS[(len(out)) % 3], "n": 2})
    for op in OPS:
        for ka in KINDS:
            for side in ("left", "right"):
                for qn in ("m", "cm_depth", "m2", "degC", "unknown_cap"):
                    out.append({"k": "op_number", "a": qn, "op": op, "ka": ka, "side": side, "n": 2})
    db = get_db("default")
    byname = {}
    for qt in db.GetQuantityTypes():
        for i in db.GetInfos(qt):
            byname.setdefault((qt, i.name), []).append(i.unit)
    for (qt, _nm), us in sorted(byname.items()):
        if len(us) > 1 and qt in db.categories_to_quantity_types:
            for u in us:
                for v in us:
                    if u != v:
                        out.append({"k": "getvalues_pair", "qt": qt, "u": u, "v": v, "ka": KINDS[len(out) % 3], "n": 2})
    for op in OPS:
        for ka in KINDS:
            for side in ("left", "right"):
                for kk in ("np.int64", "np.float64", "np.int32"):
                    out.append({"k": "op_number", "a": "m", "op": op, "ka": ka, "side": side, "n": 2, "kk": kk})
                out.append({"k": "aux_float_edge", "op": op, "ka": ka, "side": side})
    for op in OPS:
        for kb in ("list", "tuple"):
            out.append({"k": "aux_int_dtype", "op": op, "kb": kb, "b": "cm"})
            out.append({"k": "aux_int_dtype", "op": op, "kb": kb, "b": "m"})
    out.append({"k": "op", "a": "m", "b": "cm", "op": "add", "ka": "list", "kb": "list", "n": 2, "m": 2, "canary": True})
    rng.shuffle(out)
    return out


def inputs(cfg):
    return {"a%d" % i: "real" for i in range(4)} | {"b%d" % i: "real" for i in range(4)} | {"c%d" % i: "real" for i in range(4)}


def _container(kind, xs):
    import numpy

    if kind == "list":
        return list(xs)
    if kind == "tuple":
        return tuple(xs)
    if not xs:
        return numpy.array([], dtype=float)
    return SymArray(xs) if core.is_sym(xs[0]) else numpy.array(xs, dtype=float)


def _array(qname, kind, xs, ones_kind=None):
    from barril.units import Array

    if qname == "unknown_cap":
        from barril.units import GetUnknownQuantity

        return Array(GetUnknownQuantity("Gamma Ray"), _container(kind, xs))
    form, u, c = QUANTS[qname]
    if form == "leaf":
        return Array(_container(kind, xs), u, c)
    if form == "sq":
        return Array(_container(kind, xs), u, c) * Array(_container(kind, [1.0] * len(xs)), u, c)
    return Array(_container(kind, xs), u) / Array(_container(kind, [1.0] * len(xs)), c)


def _scalar(qname, x):
    from barril.units import Scalar

    if qname == "unknown_cap":
        from barril.units import GetUnknownQuantity

        return Scalar(GetUnknownQuantity("Gamma Ray"), x)
    form, u, c = QUANTS[qname]
    if form == "leaf":
        return Scalar(x, u, c)
    if form == "sq":
        return Scalar(x, u, c) * Scalar(1.0, u, c)
    return Scalar(x, u) / Scalar(1.0, c)


def _apply(op, a, b):
    return {"add": lambda: a + b, "sub": lambda: a - b, "mul": lambda: a * b, "div": lambda: a / b, "fdiv": lambda: a // b}[op]()


def _attempt(fn):
    from barril.units import UnitsError

    try:
        return ("ok", fn())
    except (core.Abort, core.HarnessError, core.Infeasible):
        raise
    except (UnitsError, ValueError, ZeroDivisionError, TypeError) as e:
        return ("raised", type(e).__name__)


def run(cfg, V):
    import numpy
    from barril.units import Array, Scalar

    k = cfg["k"]
    if k == "op":
        n, m = cfg["n"], cfg["m"]
        xa = [V["a%d" % i] for i in range(n)]
        xb = [V["b%d" % i] for i in range(m)]
        A = _array(cfg["a"], cfg["ka"], xa)
        B = _array(cfg["b"], cfg["kb"], xb)
        res = _attempt(lambda: _apply(cfg["op"], A, B))
        # oracle: the real Scalar operator per element
        sres = []
        for i in range(min(n, m)):
            sres.append(_attempt(lambda: _apply(cfg["op"], _scalar(cfg["a"], xa[i]), _scalar(cfg["b"], xb[i]))))
        s_any = _attempt(lambda: _apply(cfg["op"], _scalar(cfg["a"], 2.0), _scalar(cfg["b"], 4.0)))
        out = {"res": res[0], "exc": res[1] if res[0] == "raised" else None, "scalar": [(s[0], (s[1].GetValue(), _qsig(s[1])) if s[0] == "ok" else s[1]) for s in sres],
               "scalar_q": _qsig(s_any[1]) if s_any[0] == "ok" else s_any[1]}
        if res[0] == "ok":
            r = res[1]
            v = r.GetAbstractValue()
            out.update(vals=list(v), rq=_qsig(r), ctype="ndarray" if isinstance(v, numpy.ndarray) else type(v).__name__, cls=type(r).__name__)
            # the very same operand objects used a second time (an operand silently rescaled by the first use shows here)
            res2 = _attempt(lambda: _apply(cfg["op"], A, B))
            out["vals2"] = list(res2[1].GetAbstractValue()) if res2[0] == "ok" else None
            out["operands_after"] = (list(A.GetAbstractValue()), list(B.GetAbstractValue()), xa, xb) if cfg["a"] in ("m", "cm", "degC", "cm_depth") and cfg["b"] in ("m", "cm", "degC", "cm_depth") else None
        return out
    if k == "op_after_validation":
        from .common import fresh_posc_db, pushed

        db = fresh_posc_db()
        with pushed(db):
            db.AddCategory("c10 limited", "length", min_value=-1e30, max_value=1e30)
            xa = [V["a%d" % i] for i in range(2)]
            xb = [V["b%d" % i] for i in range(2)]
            A = Array(_container(cfg["ka"], xa), "m", "c10 limited")
            B = Array(_container(cfg["kb"], xb), "cm")
            valid = A.IsValid()
            r = _apply(cfg["op"], A, B)
            s = [_apply(cfg["op"], Scalar(a, "m"), Scalar(b, "cm")) for a, b in zip(xa, xb)]
            return {"valid": valid, "vals": list(r.GetAbstractValue()), "scalar": [x.GetValue() for x in s], "idx": [A[i] for i in range(2)], "want_idx": xa}
    if k == "two_databases":
        # history across databases: the same unit NAME is defined differently in two databases that are current one after the other
        from barril.units import UnitDatabase
        from .common import pushed

        def mkdb(joint):
            db = UnitDatabase()
            db.AddUnitBase("length", "meters", "m")
            db.AddUnit("length", "centimeters", "cm", "%f * 100.0", "%f / 100.0")
            db.AddUnit("length", "pipe joints", "joint", "%%f / %r" % joint, "%%f * %r" % joint)
            db.AddCategory("length", "length")
            return db

        res = []
        xa = [V["a%d" % i] for i in range(2)]
        for joint in ((9.5, 12.25) if cfg["order"] == 0 else (12.25, 9.5)):
            with pushed(mkdb(joint)):
                A = Array(_container(cfg["ka"], xa), "m")
                B = Array(_container(cfg["ka"], [V["b0"], V["b1"]]), "joint")
                res.append({"gv": list(A.GetValues("joint")), "gv_s": [Scalar(x, "m").GetValue("joint") for x in xa],
                            "back": list(B.GetValues("m")), "back_s": [Scalar(x, "joint").GetValue("m") for x in (V["b0"], V["b1"])],
                            "sum": list((A + B).GetValues()), "sum_s": [(Scalar(a, "m") + Scalar(b, "joint")).GetValue() for a, b in zip(xa, (V["b0"], V["b1"]))]})
        return {"dbs": res}
    if k == "op_number":
        xa = [V["a%d" % i] for i in range(cfg["n"])]
        if cfg.get("kk"):
            xa = [1.5, -2.25, 4.0][:cfg["n"]]  # numpy scalars are C objects: concrete amounts with them (enumerated, as in C09)
        kk = V["c0"] if not cfg.get("kk") else {"np.int64": numpy.int64(3), "np.float64": numpy.float64(2.5), "np.int32": numpy.int32(-2)}[cfg["kk"]]
        A = _array(cfg["a"], cfg["ka"], xa)
        f = (lambda o: _apply(cfg["op"], kk, o)) if cfg["side"] == "left" else (lambda o: _apply(cfg["op"], o, kk))
        res = _attempt(lambda: f(A))
        sres = [_attempt(lambda: f(_scalar(cfg["a"], x))) for x in xa]
        out = {"res": res[0], "exc": res[1] if res[0] == "raised" else None, "scalar": [(s[0], (s[1].GetValue(), _qsig(s[1])) if s[0] == "ok" else s[1]) for s in sres]}
        if res[0] == "ok":
            v = res[1].GetAbstractValue()
            out.update(vals=list(v), rq=_qsig(res[1]), cls=type(res[1]).__name__)
        return out
    if k == "getvalues_pair":
        xa = [V["a%d" % i] for i in range(cfg["n"])]
        A = Array(_container(cfg["ka"], xa), cfg["u"], cfg["qt"])
        return {"vals": list(A.GetValues(cfg["v"])), "copy_vals": list(A.CreateCopy(unit=cfg["v"]).GetValues()), "scalar": [Scalar(x, cfg["u"], cfg["qt"]).GetValue(cfg["v"]) for x in xa]}
    if k == "aux_float_edge":
        vals = [1.0, 6.0, 0.9, 0.3]
        bad = []
        for kk in (0.1, 0.3, 3.0):
            A = Array(_container(cfg["ka"], vals), "m")
            f = (lambda o: _apply(cfg["op"], kk, o)) if cfg["side"] == "left" else (lambda o: _apply(cfg["op"], o, kk))
            got = [float(v) for v in f(A).GetValues()]
            want = [float(f(Scalar(v, "m")).GetValue()) for v in vals]
            if got != want:
                bad.append((kk, got, want))
        return {"aux_bad": bad}
    if k == "aux_int_dtype":
        ia, fb = [1, 2, 3], [0.5, 1.25, 2.75]
        A = Array(numpy.array(ia), "m")
        B = Array(_container(cfg["kb"], fb), cfg["b"])
        r = _apply(cfg["op"], A, B)
        s = [_apply(cfg["op"], Scalar(float(a), "m"), Scalar(b, cfg["b"])) for a, b in zip(ia, fb)]
        return {"vals": [float(v) for v in r.GetValues()], "want": [float(x.GetValue()) for x in s], "unit": (r.GetUnit(), s[0].GetUnit())}
    if k == "getvalues":
        xa = [V["a%d" % i] for i in range(cfg["n"])]
        A = _array(cfg["a"], cfg["ka"], xa)
        v = A.GetValues(cfg["to"])
        c = A.CreateCopy(unit=cfg["to"])
        fx = None
        if cfg["n"] >= 2:
            from barril.units import FixedArray, ObtainQuantity

            F = FixedArray.CreateWithQuantity(A.GetQuantity(), A.GetAbstractValue(), dimension=cfg["n"])
            fx = [F.IndexAsScalar(i, ObtainQuantity(cfg["to"], A.GetCategory())).GetValue() for i in range(cfg["n"])] + [F.IndexAsScalar(i).GetValue(cfg["to"]) for i in range(cfg["n"])]
        return {"fixed_idx": fx, "vals": list(v), "ctype": "ndarray" if isinstance(v, numpy.ndarray) else type(v).__name__, "scalar": [_scalar(cfg["a"], x).GetValue(cfg["to"]) for x in xa],
                "copy_vals": list(c.GetValues()), "copy_unit": c.GetUnit(), "copy_cat": c.GetCategory(), "cat": A.GetCategory()}
    n = cfg["n"]
    units = ["m", "cm", "km", "ft"]
    scalars = [Scalar(V["a%d" % i], units[i % 4], "depth" if i % 2 else "length") for i in range(n)]
    arr = Array.FromScalars(scalars)
    arr_km = Array.FromScalars(scalars, unit="km", category="depth") if n else None
    return {"vals": list(arr.GetValues()), "unit": arr.GetUnit() if n else None, "cat": arr.GetCategory() if n else None, "idx": [arr[i] for i in range(n)], "len": len(arr),
            "km": list(arr_km.GetValues()) if n else [], "km_meta": (arr_km.GetUnit(), arr_km.GetCategory()) if n else None, "units": units[:n]}


def props(cfg, T, obs):
    if isinstance(obs, Raised):
        return [("no unexpected exception", False)]
    k = cfg["k"]
    if k == "op":
        n, m = cfg["n"], cfg["m"]
        if n != m:
            return [("operands of different lengths are rejected, not truncated", obs["res"] == "raised"),
                    ("rejected with ValueError (or a units error for incompatible dimensions)", obs["exc"] in ("ValueError", "InvalidOperationError", "ZeroDivisionError", None))]
        scal_ok = all(s[0] == "ok" for s in obs["scalar"])
        scal_exc = [s[1] for s in obs["scalar"] if s[0] != "ok"]
        if obs["res"] == "raised":
            # legitimate only if the same operation on the corresponding Scalars raises too (incompatible units, zero divisor)
            ok = (not scal_ok) or (n == 0 and isinstance(obs["scalar_q"], str)) or (cfg["ka"] == "numpy" or cfg["kb"] == "numpy") and False
            return [("an Array operation raises only where the Scalar operation raises (%s)" % obs["exc"], bool(ok))]
        P = [("result is an Array", obs["cls"] == "Array"), ("result has one element per operand element", len(obs["vals"]) == n)]
        if not scal_ok:
            # numpy semantics differ on a zero divisor (inf instead of ZeroDivisionError): outside the claim (A-NP); otherwise the Scalar op must not raise
            P.append(("the Scalar operation raises only ZeroDivisionError where the Array operation returned", set(scal_exc) <= {"ZeroDivisionError"}))
            return P
        if len(obs["vals"]) == n:
            P.append(("each element equals the Scalar result for the corresponding elements", z3.And(*[approx(r, s[1][0]) for r, s in zip(obs["vals"], obs["scalar"])]) if n else True))
        if len(obs["vals"]) == n:
            P.append(("using the very same operand objects a second time gives the same elements",
                      z3.And(z3.BoolVal(obs["vals2"] is not None and len(obs["vals2"]) == n), *[approx(r, s[1][0]) for r, s in zip(obs["vals2"] or [], obs["scalar"])]) if n else True))
        if n:
            P.append(("the result quantity equals the Scalar result quantity", all(obs["rq"] == s[1][1] for s in obs["scalar"])))
        elif not isinstance(obs["scalar_q"], str):
            P.append(("the result quantity equals the Scalar result quantity (empty operands)", obs["rq"] == obs["scalar_q"]))
        want_c = "ndarray" if "numpy" in (cfg["ka"], cfg["kb"]) else "tuple" if (cfg["ka"], cfg["kb"]) == ("tuple", "tuple") else "list"
        P.append(("result container follows the documented rule (numpy wins, tuple only for two tuples)", obs["ctype"] == want_c))
        if cfg.get("canary"):
            P.append(("canary:a+b has the elements of a", z3.And(*[approx(r, T["a%d" % i]) for i, r in enumerate(obs["vals"])])))
        return P
    if k == "op_after_validation" and isinstance(obs, dict):
        return [("after IsValid() in a category with limits, Array arithmetic and indexing still equal the element-wise Scalar results (original element order)",
                 z3.And(z3.BoolVal(len(obs["vals"]) == 2), *[approx(a, b) for a, b in zip(obs["vals"], obs["scalar"])], *[term(a) == term(b) for a, b in zip(obs["idx"], obs["want_idx"])]))]
    if k == "op_number":
        if obs["res"] == "raised":
            return [("Array <op> number raises only where Scalar <op> number raises", not all(s[0] == "ok" for s in obs["scalar"]))]
        if not all(s[0] == "ok" for s in obs["scalar"]):
            return [("the Scalar operation raises only ZeroDivisionError where the Array operation returned", all(s[0] == "ok" or s[1] == "ZeroDivisionError" for s in obs["scalar"]))]
        return [("Array <op> number: each element and the quantity equal the Scalar result", z3.And(z3.BoolVal(len(obs["vals"]) == len(obs["scalar"]) and obs["cls"] == "Array"
                                                                                                          and all(obs["rq"] == s[1][1] for s in obs["scalar"])),
                                                                                              *[approx(r, s[1][0]) for r, s in zip(obs["vals"], obs["scalar"])]))]
    if k == "getvalues_pair":
        return [("GetValues/CreateCopy between units that share a registered NAME still convert like the Scalars",
                 z3.And(z3.BoolVal(len(obs["vals"]) == len(obs["scalar"]) == len(obs["copy_vals"])), *[approx(a, b) for a, b in zip(obs["vals"], obs["scalar"])],
                        *[approx(a, b) for a, b in zip(obs["copy_vals"], obs["scalar"])]))]
    if k == "aux_float_edge":
        return [("auxiliary, concrete (not solver-decided): decimal-looking amounts (1.0 // 0.1, 0.9 // 0.3 ...) give bit-identical Array and Scalar results", obs["aux_bad"] == [])]
    if k == "aux_int_dtype":
        ok = len(obs["vals"]) == 3 and all(abs(a - b) <= 1e-12 * (abs(a) + abs(b) + 1) for a, b in zip(obs["vals"], obs["want"])) and obs["unit"][0] == obs["unit"][1]
        return [("auxiliary, concrete (not solver-decided): an integer-dtype ndarray operand with a fractional list operand equals the Scalar results", ok)]
    if k == "two_databases":
        cs = []
        for r in obs["dbs"]:
            for a, b in (("gv", "gv_s"), ("back", "back_s"), ("sum", "sum_s")):
                cs.append(z3.BoolVal(len(r[a]) == len(r[b]) == 2))
                cs += [approx(x, y) for x, y in zip(r[a], r[b])]
        return [("in each of two databases that define the same unit name differently, Array conversions and sums equal the Scalar results of THAT database", z3.And(*cs))]
    if k == "getvalues":
        n = cfg["n"]
        P = [("FixedArray.IndexAsScalar(i, quantity) / IndexAsScalar(i).GetValue(unit) equal the Scalar conversions",
              z3.And(*[approx(a, b) for a, b in zip(obs["fixed_idx"], obs["scalar"] + obs["scalar"])]) if obs["fixed_idx"] is not None else True)] + [("GetValues(unit) converts element by element like Scalar.GetValue(unit)", z3.And(*[approx(a, b) for a, b in zip(obs["vals"], obs["scalar"])]) if n else True),
             ("same length and container kind", len(obs["vals"]) == n and obs["ctype"] == {"numpy": "ndarray"}.get(cfg["ka"], cfg["ka"])),
             ("CreateCopy(unit) carries the converted values, the unit and the category", z3.And(z3.BoolVal(obs["copy_unit"] == cfg["to"] and obs["copy_cat"] == obs["cat"] and len(obs["copy_vals"]) == n),
                                                                                              *[approx(a, b) for a, b in zip(obs["copy_vals"], obs["scalar"])]))]
        return P
    n = cfg["n"]
    if n == 0:
        return [("FromScalars of nothing is an empty Array", obs["len"] == 0 and obs["vals"] == [])]
    db = get_db("default")
    want = [oracle_convert(db, "length", u, obs["units"][0], T["a%d" % i]) for i, u in enumerate(obs["units"])]
    want_km = [oracle_convert(db, "length", u, "km", T["a%d" % i]) for i, u in enumerate(obs["units"])]
    return [("FromScalars then indexing returns the original amounts (in the first scalar's unit)", z3.And(*[approx(a, b) for a, b in zip(obs["idx"], want)], z3.BoolVal(obs["len"] == n))),
            ("FromScalars takes unit and category from the first scalar", obs["unit"] == obs["units"][0] and obs["cat"] == "length"),
            ("FromScalars(unit=, category=) converts every amount", z3.And(*[approx(a, b) for a, b in zip(obs["km"], want_km)], z3.BoolVal(obs["km_meta"] == ("km", "depth"))))]


def finding_key(cfg, name):
    if cfg["k"] == "op" and name.startswith("operands of different lengths") and "numpy" in (cfg["ka"], cfg["kb"]) and (1 in (cfg["n"], cfg["m"])):
        return "numpy broadcasting: a length-1 operand paired with a numpy operand is broadcast instead of rejected :: " + name
    if cfg["k"] == "op_number":
        return "%s[%s] %s number on the %s :: %s" % (cfg["a"], cfg["ka"], cfg["op"], cfg["side"], name)
    if cfg["k"] == "op":
        return "%s[%s,%d] %s %s[%s,%d] :: %s" % (cfg["a"], cfg["ka"], cfg["n"], cfg["op"], cfg["b"], cfg["kb"], cfg["m"], name.split(" (")[0])
    return "%s %s :: %s" % (cfg["k"], {k: v for k, v in cfg.items() if k != "k"}, name)
