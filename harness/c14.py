"""C14 - the unit registry stays well-formed under any registration history.
Static part: the three shipped databases, exhaustively. Dynamic part: ONE registration step with symbolic
numeric arguments (limits, default value) from constructed pre-states, compared with a small reference
model: well-formedness after accepted steps, identical snapshot after rejected steps, acceptance exactly
when the model accepts. Two-step chains in thorough."""
import itertools
import random

import z3

from symx import core
from symx.check import Raised
from symx.core import SymReal, term

from .common import get_db, pushed, snap_registry

PID = "C14"
FUNCTIONS = ["UnitDatabase.AddUnit/AddUnitBase/AddCategory (incl. override, from_category, legacy fixing, default derivation)", "UnitDatabase.GetDefaultCategory/GetBaseUnit/"
             "GetValidUnits/GetUnits/GetInfos/GetCategoryInfo", "posc.FillUnitDatabaseWithPosc + category aliases", "UnitDatabase.FillSimple", "Scalar construction/IsValid on registered names"]
BOUNDS = {
    "quick": "static: every quantity type, unit and category of the three shipped databases (base identity proved for all amounts); dynamic: 7 pre-states (empty, base only, "
             "two types, with categories and limits, unit-before-base, overridden category, POSC) x 46 registration steps over name pools with duplicates, foreign "
             "units, legacy spellings, invalid arguments; limits/default value/probe amount symbolic (all reals); one step",
    "thorough": "same plus every ordered pair of steps from the 4 small pre-states (two-step histories)",
}
BOUNDS_ALSO = '; also: pre-state with a category NAMED like one quantity type but registered for another; steps with legacy-spelled foreign units among valid units and with unit symbols that merely contain a legacy spelling; after an accepted unit registration the new unit must build a Scalar under every category of its quantity type'
BOUNDS = {k_: v_ + BOUNDS_ALSO for k_, v_ in BOUNDS.items()}
ASSUMPTIONS = ["A-FP", "reference model (3 dicts) written from the documented behaviour of AddUnit/AddUnitBase/AddCategory", "base identity is required of quantity types for which "
               "AddUnitBase was called; a type that only ever received AddUnit has no base by the caller's choice", "the discrete dimension is enumerated, stated as such"]
CHUNK = 10

# ---- pre-states and steps (plain data; numeric arguments named 'lo','hi','d' are replaced by the symbolic inputs) -------------------------
PRE = {
    "empty": [],
    "base": [("base", "length", "meters", "m")],
    "two": [("base", "length", "meters", "m"), ("unit", "length", "centimeters", "cm", 100), ("base", "time", "seconds", "s")],
    "cats": [("base", "length", "meters", "m"), ("unit", "length", "centimeters", "cm", 100), ("base", "time", "seconds", "s"),
             ("cat", "length", {"quantity_type": "length"}), ("cat", "depth", {"quantity_type": "length", "valid_units": ["m", "cm"], "min_value": 0.0, "default_value": 5.0})],
    "unit_first": [("unit", "length", "centimeters", "cm", 100), ("base", "length", "meters", "m")],
    "overridden": [("base", "length", "meters", "m"), ("base", "time", "seconds", "s"), ("cat", "c1", {"quantity_type": "length"}), ("cat", "c1", {"quantity_type": "time", "override": True})],
    # a category NAMED like one quantity type but registered for another one
    "crossnamed": [("base", "length", "meters", "m"), ("unit", "length", "centimeters", "cm", 100), ("base", "time", "seconds", "s"), ("unit", "time", "minutes", "min", 0.5),
                   ("cat", "time", {"quantity_type": "length", "valid_units": ["m", "cm"]}), ("cat", "depth", {"quantity_type": "length"})],
    "posc": "posc",
}
STEPS = [
    ("base", "length", "meters", "m"), ("base", "length", "kilometers", "km"), ("base", "newtype", "enn", "nn"), ("base", "time", "m again", "m"),
    ("unit", "length", "centimeters", "cm", 100), ("unit", "length", "inches", "in", 39.37), ("unit", "time", "meters?", "m", 2), ("unit", "newtype", "cm?", "cm", 3),
    ("unit", "newtype", "xx", "xx", 7),
    ("cat", "c1", {"quantity_type": "length"}), ("cat", "c1", {"quantity_type": "nosuchtype"}), ("cat", "length", {"quantity_type": "length"}),
    ("cat", "depth", {"quantity_type": "length"}), ("cat", "depth", {"quantity_type": "time", "override": True}), ("cat", "depth", {"quantity_type": "nosuchtype", "override": True}),
    ("cat", "c1", {"quantity_type": "length", "valid_units": ["m", "s"]}), ("cat", "c1", {"quantity_type": "length", "valid_units": ["cm"]}),
    ("cat", "c1", {"quantity_type": "length", "valid_units": ["cm", "m"]}), ("cat", "c1", {"quantity_type": "length", "valid_units": []}),
    ("cat", "c1", {"quantity_type": "length", "default_unit": "s"}), ("cat", "c1", {"quantity_type": "length", "default_unit": "cm"}),
    ("cat", "c1", {"quantity_type": "length", "valid_units": ["m"], "default_unit": "cm"}),
    ("cat", "c1", {"quantity_type": "length", "min_value": "lo", "max_value": "hi", "default_value": "d"}),
    ("cat", "c1", {"quantity_type": "length", "min_value": "lo", "max_value": "hi"}),
    ("cat", "c1", {"quantity_type": "length", "min_value": "lo", "default_value": "d", "is_min_exclusive": True}),
    ("cat", "c1", {"quantity_type": "length", "max_value": "hi", "default_value": "d", "is_max_exclusive": True}),
    ("cat", "c1", {"quantity_type": "length", "min_value": "lo", "is_min_exclusive": True}), ("cat", "c1", {"quantity_type": "length", "max_value": "hi", "is_max_exclusive": True}),
    ("cat", "c1", {"quantity_type": "length", "min_value": "lo", "max_value": "hi", "default_value": "d", "is_min_exclusive": True, "is_max_exclusive": True, "default_unit": "cm"}),
    ("cat", "c1", {"quantity_type": "length", "max_value": "hi"}), ("cat", "c1", {"quantity_type": "length", "default_value": "d"}),
    ("cat", "c2", {"from_category": "depth"}), ("cat", "c2", {"from_category": "depth", "default_unit": "cm"}), ("cat", "c2", {"from_category": "depth", "min_value": "lo"}),
    ("cat", "c2", {"from_category": "depth", "max_value": "hi", "default_value": "d"}), ("cat", "c2", {"from_category": "depth", "quantity_type": "length"}),
    ("cat", "c2", {"from_category": "nosuchcat"}), ("cat", "c2", {"from_category": "depth", "valid_units": ["s"]}), ("cat", "depth", {"from_category": "length", "override": True}),
    ("cat", "c1", {"quantity_type": "time", "valid_units": ["s"], "min_value": "lo", "default_value": "d"}),
    ("cat", "c2", {"from_category": "depth", "max_value": "hi"}), ("cat", "c2", {"from_category": "depth", "min_value": "lo", "is_min_exclusive": True}),
    ("base", "length", "centimeters", "km"), ("base", "time", "seconds", "ss"), ("unit", "length", "meters", "mm", 1000),
    ("cat", "c1", {"quantity_type": "depth", "default_unit": "m"}), ("cat", "c1", {"quantity_type": "depth"}),
    ("cat", "length", {"quantity_type": "length", "override": True, "min_value": "lo", "default_value": "d"}),
    ("cat", "length", {"quantity_type": "time", "override": True}),
    ("cat", "c3", {"quantity_type": "time"}), ("cat", "c3", {"quantity_type": "time", "default_unit": "s"}), ("cat", "length", {"quantity_type": "time"}),
    ("cat", "c1", {"quantity_type": "length", "min_value": "lo", "default_value": float("nan")}), ("cat", "c1", {"quantity_type": "length", "max_value": "hi", "default_value": float("nan")}),
    ("cat", "c1", {"quantity_type": "length", "min_value": "lo", "max_value": "hi", "default_value": float("nan"), "is_max_exclusive": True}),
    ("cat", "depth", {"quantity_type": "length", "override": True, "min_value": "lo", "default_value": float("nan")}),
]
POSC_STEPS = [
    ("cat", "c1", {"quantity_type": "volume flow rate", "default_unit": "1000ft3/d"}), ("cat", "c1", {"quantity_type": "volume flow rate", "valid_units": ["M(ft3)/d", "m3/s"]}),
    ("cat", "c1", {"quantity_type": "amount of substance", "valid_units": ["lbmole", "gmole"], "default_unit": "gmole"}), ("cat", "c1", {"quantity_type": "length", "default_unit": "lbmole"}),
    ("cat", "c1", {"quantity_type": "length", "valid_units": ["s"]}), ("unit", "brand new type", "metres?", "m", 2), ("base", "length", "x", "ft"),
    ("cat", "depth", {"quantity_type": "time", "override": True, "min_value": "lo", "default_value": "d"}), ("cat", "c1", {"from_category": "depth", "max_value": "hi", "default_value": "d"}),
    ("cat", "liquid volume", {"quantity_type": "volume"}),
    # a legacy-spelled unit of ANOTHER quantity type among the valid units; units whose symbol merely CONTAINS a legacy spelling
    ("cat", "c1", {"quantity_type": "length", "valid_units": ["lbmole"]}), ("cat", "c1", {"quantity_type": "length", "valid_units": ["m", "1000ft3/d"]}),
    ("cat", "c1", {"quantity_type": "length", "default_unit": "Ns/m"}),
    ("unit", "force per velocity", "kilonewton seconds per metre", "kNs/m", 1000), ("unit", "amount of substance", "kilogram moles", "kgmole", 1000),
    ("unit", "volume flow rate", "my thousand cubic feet per day", "my1000ft3/d", 3),
]


def items(tier, seed):
    out = []
    for dbn in ("default", "posc_nocat", "simple"):
        db = get_db(dbn)
        for qt in db.GetQuantityTypes():
            out.append({"k": "static_qt", "db": dbn, "qt": qt})
        cats = list(db.IterCategories())
        for i in range(0, len(cats), 20):
            out.append({"k": "static_cats", "db": dbn, "cats": cats[i:i + 20]})
        out.append({"k": "static_global", "db": dbn})
    for pre in PRE:
        steps = POSC_STEPS if pre == "posc" else STEPS
        for i, _s in enumerate(steps):
            out.append({"k": "step", "pre": pre, "steps": [i]})
    if tier != "quick":
        for pre in ("empty", "two", "cats", "unit_first"):
            for i, j in itertools.permutations(range(len(STEPS)), 2):
                out.append({"k": "step", "pre": pre, "steps": [i, j]})
    out.append({"k": "step", "pre": "two", "steps": [9], "canary": True})
    random.Random(seed).shuffle(out)
    return out


def inputs(cfg):
    return {"lo": "real", "hi": "real", "d": "real", "x": "real"}


# ---- reference model ---------------------------------------------------------------------------------------------------------------------
class Model:
    def __init__(self):
        self.qts = {}       # qt -> [unit, ...]  (base first)
        self.units = {}     # unit -> qt
        self.based = set()  # quantity types that received AddUnitBase
        self.cats = {}      # cat -> dict(qt, valid_units, default_unit, min, max, emin, emax, default_value)

    @staticmethod
    def from_db(db):
        m = Model()
        for qt, infos in db.quantity_types.items():
            m.qts[qt] = [i.unit for i in infos]
            for i in infos:
                m.units[i.unit] = qt
            if infos and getattr(infos[0].tobase, "__has_conversion__", True) is False:
                m.based.add(qt)
        for c, i in db.categories_to_quantity_types.items():
            m.cats[c] = dict(qt=i.quantity_type, valid_units=list(i.valid_units) if i.valid_units is not None else None, default_unit=i.default_unit, min=i.min_value,
                             max=i.max_value, emin=i.is_min_exclusive, emax=i.is_max_exclusive, default_value=i.default_value)
        return m

    def apply(self, step, val):
        """-> (accept condition as z3 Bool or python bool, committer). `val` maps 'lo','hi','d' to terms."""
        from barril.units.unit_database import FixUnitIfIsLegacy

        kind = step[0]
        if kind in ("base", "unit"):
            qt, unit = step[1], step[3]
            ok = unit not in self.units

            def commit():
                self.units[unit] = qt
                if kind == "base":
                    self.qts.setdefault(qt, []).insert(0, unit)
                    self.based.add(qt)
                else:
                    self.qts.setdefault(qt, []).append(unit)
            return ok, commit
        cat, kw = step[1], dict(step[2])
        g = lambda k: (val[kw[k]] if isinstance(kw.get(k), str) and kw[k] in val else kw.get(k))
        if kw.get("from_category") and kw.get("quantity_type"):
            return False, None
        if not kw.get("override") and cat in self.cats:
            return False, None
        qt, vu, du, dv, mn, mx = kw.get("quantity_type"), kw.get("valid_units"), kw.get("default_unit"), g("default_value"), g("min_value"), g("max_value")
        emin, emax = bool(kw.get("is_min_exclusive")), bool(kw.get("is_max_exclusive"))
        conds = []
        if mn is not None and mx is not None:
            conds.append(term(mx) >= term(mn))
        if kw.get("from_category"):
            src = self.cats.get(kw["from_category"])
            if src is None:
                return False, None
            qt = src["qt"]
            vu = src["valid_units"] if vu is None else vu
            du = src["default_unit"] if du is None else du
            dv = src["default_value"] if dv is None else dv
            mn = src["min"] if mn is None else mn
            mx = src["max"] if mx is None else mx
        if qt not in self.qts:
            return False, None
        units = self.qts[qt]
        if vu is not None:
            vu = [FixUnitIfIsLegacy(u)[1] for u in vu]
            if any(u not in units for u in vu):
                return False, None
        if du is None:
            du = units[0]
            if vu and du not in vu:
                du = vu[0]
        else:
            du = FixUnitIfIsLegacy(du)[1]
            if du not in units:
                return False, None
        if isinstance(dv, float) and dv != dv and (mn is not None or mx is not None):
            return False, None  # a NaN default value satisfies no limit
        if dv is None:
            if emin or emax:
                return False, None
            dv = mn if mn is not None else mx if mx is not None else 0.0
        else:
            if mn is not None:
                conds.append(term(dv) > term(mn) if emin else term(dv) >= term(mn))
            if mx is not None:
                conds.append(term(dv) < term(mx) if emax else term(dv) <= term(mx))

        def commit():
            self.cats[cat] = dict(qt=qt, valid_units=vu, default_unit=du, min=mn, max=mx, emin=emin, emax=emax, default_value=dv)
        return (z3.And(*conds) if conds else True), commit


def _conv(factor):
    return (lambda x: x * factor), (lambda x: x / factor)


def do_step(db, step, V):
    kind = step[0]
    if kind == "base":
        return db.AddUnitBase(step[1], step[2], step[3])
    if kind == "unit":
        fb, tb = _conv(float(step[4]))
        return db.AddUnit(step[1], step[2], step[3], fb, tb)
    kw = {k: (V[v] if isinstance(v, str) and v in ("lo", "hi", "d") else (list(v) if isinstance(v, list) else v)) for k, v in step[2].items()}
    return db.AddCategory(step[1], **kw)


def build_pre(pre):
    from barril.units import UnitDatabase

    db = UnitDatabase()
    if PRE[pre] == "posc":
        UnitDatabase.FillUnitDatabaseWithPosc(db)
    else:
        for st in PRE[pre]:
            do_step(db, st, {})
    return db


def wellformed(db, model, V):
    # read-only queries without an argument first (they must not touch the per-type lists they are assembled from)
    db.GetUnits(), db.GetInfos(), db.GetUnits(), db.GetQuantityTypes()
    return _wellformed(db, model, V)


def _wellformed(db, model, V):
    """-> list of violated invariants (strings)"""
    from barril.units import Scalar

    bad = []
    seen = {}
    for qt, infos in db.quantity_types.items():
        for i in infos:
            if i.unit in seen:
                bad.append("unit %s in two quantity types" % i.unit)
            seen[i.unit] = qt
            if i.quantity_type != qt or db.unit_to_unit_info.get(i.unit) is not i:
                bad.append("unit %s inconsistent between the two indexes" % i.unit)
    if set(seen) != set(db.unit_to_unit_info):
        bad.append("unit index mismatch")
    x = V["x"]
    for qt in model.based:
        infos = db.quantity_types.get(qt, [])
        if not infos or db.GetBaseUnit(qt) != infos[0].unit:
            bad.append("no base unit for %s" % qt)
            continue
        if not (z3.is_true(z3.simplify(term(infos[0].tobase(x)) == term(x))) and z3.is_true(z3.simplify(term(infos[0].frombase(x)) == term(x)))):
            bad.append("base unit of %s is not the identity" % qt)
    for c in list(db.IterCategories()):
        i = db.GetCategoryInfo(c)
        if i.quantity_type not in db.quantity_types:
            bad.append("category %s refers to a missing quantity type" % c)
            continue
        units = db.GetUnits(i.quantity_type)
        if i.default_unit not in units or db.GetDefaultUnit(c) != i.default_unit:
            bad.append("category %s default unit %r is not a unit of its type" % (c, i.default_unit))
        if any(u not in units for u in db.GetValidUnits(c)):
            bad.append("category %s has valid units outside its type" % c)
    return bad


def usable(db, cats, V, probe_units=True):
    """build a Scalar from every listed category (and each of its quantity type's units, bounded) - returns problems"""
    from barril.units import Scalar

    bad = []
    with pushed(db):
        for c in cats:
            i = db.GetCategoryInfo(c)
            try:
                s = Scalar(c)
                if not s.IsValid() or s.GetUnit() != i.default_unit:
                    bad.append("Scalar(%r) invalid at the category default" % c)
                for u in (db.GetUnits(i.quantity_type)[:4] if probe_units else []):
                    Scalar(i.default_value, i.default_unit, c).GetValue(u)
                    Scalar(V["x"], u, c)
            except (core.Abort, core.HarnessError, core.Infeasible):
                raise
            except Exception as e:  # noqa
                bad.append("category %r unusable: %s" % (c, type(e).__name__))
    return bad


def run(cfg, V):
    from barril.units import Scalar

    k = cfg["k"]
    if k.startswith("static"):
        db = get_db(cfg["db"])
        if k == "static_qt":
            infos = db.GetInfos(cfg["qt"])
            x = V["x"]
            o = {"base": db.GetBaseUnit(cfg["qt"]) == infos[0].unit, "tb": infos[0].tobase(x), "fb": infos[0].frombase(x), "dup": [], "scalar_bad": []}
            for i in infos:
                if db.unit_to_unit_info.get(i.unit) is not i or db.GetQuantityType(i.unit) != cfg["qt"]:
                    o["dup"].append(i.unit)
            if cfg["db"] == "default":
                with pushed(db):
                    for i in infos:
                        try:
                            s = Scalar(x, i.unit)
                            if not s.IsValid() or s.GetQuantityType() != cfg["qt"]:
                                o["scalar_bad"].append(i.unit)
                        except (core.Abort, core.HarnessError, core.Infeasible):
                            raise
                        except Exception as e:  # noqa
                            o["scalar_bad"].append("%s: %s" % (i.unit, type(e).__name__))
            return o
        if k == "static_cats":
            model = Model.from_db(db)
            return {"bad": usable(db, cfg["cats"], V)}
        model = Model.from_db(db)
        model.based = set(db.quantity_types)  # every shipped quantity type must have an identity base unit
        return {"bad": wellformed(db, model, V), "n": (len(db.quantity_types), len(db.unit_to_unit_info), len(db.categories_to_quantity_types))}
    db = build_pre(cfg["pre"])
    model = Model.from_db(db)
    if cfg["pre"] in ("unit_first",):
        model.based = {"length"}
    steps = POSC_STEPS if cfg["pre"] == "posc" else STEPS
    log = []
    for si in cfg["steps"]:
        step = steps[si]
        # history: quantities are obtained through the unit alone and through (unit, category) BEFORE the step
        from barril.units import ObtainQuantity

        with pushed(db):
            for u in ("m", "cm", "s"):
                for c in (None, "length", "depth", "time"):
                    try:
                        ObtainQuantity(u, c) if c else ObtainQuantity(u)
                    except Exception:  # noqa
                        pass
        if step[0] == "cat":
            # history: the (category, unit) pairs are probed BEFORE the registration (a refusal may get memoised)
            for u in ("m", "cm", "s", "km"):
                try:
                    db.CheckCategoryUnit(step[1], u)
                except Exception:  # noqa
                    pass
        snap0 = snap_registry(db)
        try:
            do_step(db, step, V)
            acc, exc = True, None
        except (core.Abort, core.HarnessError, core.Infeasible):
            raise
        except Exception as e:  # noqa
            acc, exc = False, type(e).__name__
        cond, commit = model.apply(step, {"lo": V["lo"], "hi": V["hi"], "d": V["d"]})
        if acc and commit is not None:
            commit()
        entry = {"accepted": acc, "exc": exc, "model_cond": cond, "same_snapshot": (snap_registry(db) == snap0) if not acc else None}
        entry["bad"] = wellformed(db, model, V)
        # a quantity obtained now (by unit alone or with its category) is bound to the category definition the database reports now
        with pushed(db):
            for u in ("m", "cm", "s"):
                c = db.GetDefaultCategory(u) if u in db.unit_to_unit_info else None
                if c and db.IsValidCategory(c) and u in db.GetUnits(db.GetCategoryQuantityType(c)):
                    try:
                        q1, q2 = ObtainQuantity(u), ObtainQuantity(u, c)
                        if q1.GetCategoryInfo() is not db.GetCategoryInfo(c) or q2.GetCategoryInfo() is not db.GetCategoryInfo(c) or q1.GetQuantityType() != db.GetCategoryQuantityType(c):
                            entry["bad"].append("quantity for unit %s is bound to a stale definition of category %s" % (u, c))
                    except Exception as e:  # noqa
                        entry["bad"].append("ObtainQuantity(%s) fails: %s" % (u, type(e).__name__))
        if acc and step[0] == "cat":
            entry["bad"] += usable(db, [step[1]], V)
            i = db.GetCategoryInfo(step[1])
            m = model.cats.get(step[1])
            entry["info"] = (i.quantity_type, list(i.valid_units) if i.valid_units is not None else None, i.default_unit)
            entry["model_info"] = (m["qt"], m["valid_units"], m["default_unit"]) if m else None
            entry["limits"] = (i.default_value, i.min_value, i.max_value, i.is_min_exclusive, i.is_max_exclusive)
        if acc and step[0] in ("base", "unit"):
            # "every registered unit can be used to build a valid Scalar": the unit just registered, under every category of its quantity type
            with pushed(db):
                for c in [c for c in db.IterCategories() if db.GetCategoryQuantityType(c) == step[1]][:6]:
                    vu = db.GetCategoryInfo(c).valid_units
                    try:
                        s_ = Scalar(V["x"], step[3], c)
                        if s_.GetUnit() != step[3] or s_.GetQuantityType() != step[1]:
                            entry["bad"].append("Scalar(x, %r, %r) reports unit %r / type %r" % (step[3], c, s_.GetUnit(), s_.GetQuantityType()))
                        ObtainQuantity(step[3], c), db.CheckQuantityTypeUnit(step[1], step[3]), db.GetInfo(step[1], step[3])
                    except (core.Abort, core.HarnessError, core.Infeasible):
                        raise
                    except Exception as e:  # noqa
                        entry["bad"].append("the unit %r just registered cannot build a Scalar of category %r: %s" % (step[3], c, type(e).__name__))
            entry["units"] = {qt: [i.unit for i in infos] for qt, infos in db.quantity_types.items()} if cfg["pre"] != "posc" else None
            entry["model_units"] = {qt: list(us) for qt, us in model.qts.items()} if cfg["pre"] != "posc" else None
        log.append(entry)
    return {"log": log}


def props(cfg, T, obs):
    if isinstance(obs, Raised):
        return [("registration steps and registry queries raise only their documented errors", False)]
    k = cfg["k"]
    if k == "static_qt":
        x = T["x"]
        return [("the first-listed unit is the base unit and its to-base/from-base are the identity (all amounts)", z3.And(z3.BoolVal(bool(obs["base"])), term(obs["tb"]) == x, term(obs["fb"]) == x)),
                ("every unit belongs to exactly this quantity type in both indexes", obs["dup"] == []),
                ("every unit builds a valid Scalar", obs["scalar_bad"] == [])]
    if k == "static_cats":
        return [("every category builds a valid Scalar at its default and accepts its type's units", obs["bad"] == [])]
    if k == "static_global":
        return [("the shipped database is well-formed", obs["bad"] == []), ("the shipped database is not empty", obs["n"][0] >= 2 and obs["n"][1] >= 8)]
    P = []
    for n, e in enumerate(obs["log"]):
        cond = e["model_cond"]
        cond = z3.BoolVal(cond) if isinstance(cond, bool) else cond
        if e["accepted"]:
            P.append(("step %d: accepted only when the reference model accepts" % n, cond))
            P.append(("step %d: registry well-formed and the new category / unit usable after an accepted step" % n, e["bad"] == []))
            if "info" in e:
                P.append(("step %d: stored quantity type / valid units / default unit as the model predicts" % n, e["info"] == e["model_info"]))
                dv, mn, mx, emin, emax = e["limits"]
                cs = []
                if isinstance(dv, float) and dv != dv:  # a NaN default value satisfies no limit
                    cs, mn, mx = ([z3.BoolVal(mn is None and mx is None)], None, None)
                if mn is not None:
                    cs.append(term(dv) > term(mn) if emin else term(dv) >= term(mn))
                if mx is not None:
                    cs.append(term(dv) < term(mx) if emax else term(dv) <= term(mx))
                P.append(("step %d: default value inside the category's own limits" % n, z3.And(*cs) if cs else True))
            if e.get("units") is not None:
                P.append(("step %d: unit lists (base first) as the model predicts" % n, e["units"] == e["model_units"]))
        else:
            P.append(("step %d: rejected only when the reference model rejects" % n, z3.Not(cond)))
            P.append(("step %d: a rejected registration leaves the registry exactly as it was" % n, bool(e["same_snapshot"])))
            P.append(("step %d: registry still well-formed" % n, e["bad"] == []))
    if cfg.get("canary"):
        P.append(("canary:AddCategory('c1','length') is rejected", not obs["log"][0]["accepted"]))
    return P


def finding_key(cfg, name):
    if cfg["k"] == "step":
        steps = POSC_STEPS if cfg["pre"] == "posc" else STEPS
        return "pre=%s steps=%s :: %s" % (cfg["pre"], [steps[i][:3] for i in cfg["steps"]], name)
    return "%s %s %s :: %s" % (cfg["k"], cfg.get("db"), cfg.get("qt", ""), name)
