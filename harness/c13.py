"""C13 - operations never mutate their operands; copies and pickles are equal.
One step of the operation alphabet from a pool of value objects whose amounts are symbolic: every pool
member (values, caller-owned containers, unit, category, dimension, fraction parts) is snapshotted before
and compared after the step, on every path incl. the failing ones (inductive: no step mutates => no sequence does).
Depth-2 chains reuse the pool after a first step (thorough)."""
import copy
import pickle
import random

import z3

from symx import core
from symx.check import Raised
from symx.shims import SymArray

from .common import snap_value

PID = "C13"
FUNCTIONS = ["Scalar/Array/FixedArray/FractionScalar arithmetic, comparison, GetValue(s), CreateCopy, IsValid/CheckValidity, str/repr/GetFormatted, "
             "Copy/__copy__/__deepcopy__/__reduce__", "Array.FromScalars", "FixedArray.ChangingIndex/IndexAsScalar",
             "FractionScalar.ConvertFractionValue", "UnitDatabase.Convert / Sum / Subtract / Multiply / Divide / FloorDivide / _MatchQuantities / _ConvertToMatchedUnit",
             "ChangeScalars"]
BOUNDS = {
    "quick": "values: all reals; pool of 20 value objects (incl. a derived quantity with two categories of one type in different units and arrays in a category with limits) (Scalar simple/derived/empty/unknown-caption, Array over list/tuple/numpy simple and derived, "
             "FixedArray list/numpy, FractionScalar with and without fraction); every unary operation on every member and every binary operator on a "
             "seeded sample of 260 ordered pairs; one step",
    "thorough": "same pool; every binary operator on every ordered pair; plus 6000 seeded two-step chains",
}
BOUNDS_ALSO = '; also: pool members with numpy storage in pure-offset units (degC, Pa(g)), concrete NaN/inf/zero numpy storage (two arrays with the same numbers), an improper fraction; operations: in-place operators, CheckValues with another dimension, ValidateValues, GetValues twice; always-in pairs for the two-category operand and the non-finite storage'
BOUNDS = {k_: v_ + BOUNDS_ALSO for k_, v_ in BOUNDS.items()}
ASSUMPTIONS = ["A-FP", "A-NP incl. in-place ufunc semantics (out=) of the object-array model", "formatting runs with its output discarded (C-level %g on the NaN payload)",
               "proxies pickle by reference, so the real __reduce__ of Scalar/FixedArray/Quantity is what is exercised"]
CHUNK = 10
POOL = ["s_unknown_nocap", "s_cm_cap", "a_unknown_cap", "a_np_nonfinite", "a_np_nonfinite_b", "fs_improper", "a_np_degC", "f_np_degC", "a_np_Pag", "s_s.m", "f_derived", "f_empty", "s_two_cats", "a_np_limited", "a_list_limited", "s_m", "s_cm_depth", "s_degC", "s_m2", "s_cm2", "s_per_s", "s_empty", "s_unknown", "a_list_m", "a_tuple_cm", "a_np_m", "a_np_cm2", "a_list_m2",
        "f_list_m", "f_np_cm", "fs_in", "fs_frac_in"]
BINOPS = ["iadd", "isub", "imul", "idiv", "ifdiv", "imul_num", "add", "sub", "mul", "div", "fdiv", "radd_num", "rdiv_num", "mul_num", "eq", "ne", "lt", "le"]
UNOPS = ["pickle_all", "GetValue_other", "GetValue_own", "CreateCopy", "CreateCopy_unit", "CreateCopy_value", "IsValid", "CheckValidity", "str", "repr", "GetFormatted",
         "copy", "deepcopy", "pickle", "hash", "db.Convert", "ChangingIndex", "ChangingIndex_num", "ChangingIndex_keep", "IndexAsScalar", "FromScalars", "ConvertFractionValue",
         "ChangeScalars", "pow2", "neg_cmp", "GetValidUnits", "iter_len", "CheckValues_dim", "ValidateValues", "GetValues_twice"]


def items(tier, seed):
    rng = random.Random(seed)
    out = [{"op": u, "a": a} for u in UNOPS for a in POOL]
    pairs = [(a, b) for a in POOL for b in POOL]
    if tier == "quick":
        pairs = rng.sample(pairs, 260)
        for a, b in pairs:
            out.append({"op": rng.choice(BINOPS), "a": a, "b": b})
        # the pairs known to exercise unit matching with exponents on caller-owned numpy storage are always in
        for a, b in (("s_two_cats", "s_m2"), ("s_two_cats", "s_cm2"), ("s_m2", "s_two_cats"), ("s_two_cats", "s_two_cats"), ("a_np_m", "a_np_cm2"), ("a_np_cm2", "a_np_m"), ("a_np_cm2", "a_list_m2"), ("a_list_m2", "a_np_cm2"), ("s_m2", "s_cm2"), ("f_np_cm", "a_np_m")):
            for o in ("add", "mul", "div", "sub"):
                out.append({"op": o, "a": a, "b": b})
        for a, b in (("s_unknown", "s_unknown_nocap"), ("s_unknown_nocap", "s_unknown"), ("s_cm_cap", "s_m"), ("s_m", "s_cm_cap"), ("a_unknown_cap", "s_unknown_nocap"), ("s_unknown_nocap", "a_unknown_cap")):
            for o in ("add", "sub", "radd_num", "mul", "eq"):
                out.append({"op": o, "a": a, "b": b})
        for a, b in (("a_np_nonfinite", "a_np_nonfinite_b"), ("a_np_nonfinite_b", "a_np_nonfinite"), ("a_np_nonfinite", "a_np_nonfinite")):
            for o in ("eq", "ne", "div", "fdiv", "mul", "add", "sub", "lt"):
                out.append({"op": o, "a": a, "b": b})
        for a in ("a_np_m", "a_list_m", "f_np_cm", "s_m"):
            for o in ("div", "fdiv", "mul"):
                out.append({"op": o, "a": a, "b": "a_np_nonfinite"})
    else:
        out += [{"op": o, "a": a, "b": b} for (a, b) in pairs for o in BINOPS]
        for _ in range(6000):
            a, b, c = rng.choice(POOL), rng.choice(POOL), rng.choice(POOL)
            out.append({"op": rng.choice(BINOPS), "a": a, "b": b, "then": {"op": rng.choice(BINOPS + UNOPS), "b": c}})
    out.append({"op": "mul", "a": "s_m", "b": "s_cm_depth", "canary": True})
    rng.shuffle(out)
    return out


def inputs(cfg):
    return {"x%d" % i: "real" for i in range(24)} | {"k": "real"}


def _arr(xs):
    import numpy

    return SymArray(xs) if core.is_sym(xs[0]) else numpy.array(xs, dtype=float)


def make_pool(V):
    from barril.basic.fraction import FractionValue
    from barril.units import Array, FixedArray, FractionScalar, GetUnknownQuantity, Scalar

    x = [V["x%d" % i] for i in range(24)]
    from collections import OrderedDict
    from barril.units import Quantity, UnitDatabase

    db = UnitDatabase.GetSingleton()
    if not db.IsValidCategory("c13 limited"):
        db.AddCategory("c13 limited", "length", min_value=-1e30, max_value=1e30)
    p = {}
    import numpy as _np

    # concrete float storage with NaN, infinities and both zeros (two separate arrays holding the same numbers), and an improper fraction
    p["a_np_nonfinite"] = Array(_np.array([float("nan"), 0.0, float("inf"), -0.0, 2.5]), "m")
    p["a_np_nonfinite_b"] = Array(_np.array([float("nan"), 0.0, float("inf"), -0.0, 2.5]), "m")
    p["fs_improper"] = FractionScalar(FractionValue(x[22], (7, 4)), "in")
    from barril.units import ObtainQuantity as _OQ

    p["s_unknown_nocap"] = Scalar(GetUnknownQuantity(), x[6])  # shares unit and category with the captioned s_unknown
    p["s_cm_cap"] = Scalar(_OQ("cm", "length", "as measured"), x[7])  # a caption on a known unit, to be added to the plain s_m
    p["a_unknown_cap"] = Array(GetUnknownQuantity("Gamma Ray"), [x[8], x[9]])
    p["a_np_degC"] = Array(_arr([x[2], x[3]]), "degC")  # pure-offset units on caller-owned numpy storage
    p["f_np_degC"] = FixedArray(2, _arr([x[4], x[5]]), "degC")
    p["a_np_Pag"] = Array(_arr([x[6], x[7]]), "Pa(g)")
    p["s_s.m"] = Scalar(x[2], "s") * Scalar(2.0, "m")  # composing order not alphabetical
    p["f_derived"] = FixedArray(2, [x[18], x[19]], "m") * FixedArray(2, [1.0, 1.0], "m")
    p["f_empty"] = FixedArray.CreateEmptyArray(2, [x[20], x[21]])
    p["s_two_cats"] = Scalar.CreateWithQuantity(Quantity.CreateDerived(OrderedDict([("length", ["m", 1]), ("depth", ["cm", 1])])), x[0])
    p["a_np_limited"] = Array(_arr([x[13], x[12], x[1]]), "m", "c13 limited")
    p["a_list_limited"] = Array([x[9], x[8]], "cm", "c13 limited")
    p["s_m"] = Scalar(x[0], "m")
    p["s_cm_depth"] = Scalar(x[1], "cm", "depth")
    p["s_degC"] = Scalar(x[2], "degC")
    p["s_m2"] = Scalar(x[3], "m") * Scalar(2.0, "m")
    p["s_cm2"] = Scalar(x[4], "cm") * Scalar(3.0, "cm")
    p["s_per_s"] = 1.0 / Scalar(x[5], "s") if not _is_zero(x[5]) else Scalar(x[5], "s")
    p["s_empty"] = Scalar.CreateEmptyScalar(x[6])
    p["s_unknown"] = Scalar(GetUnknownQuantity("Feeeet"), x[7])
    p["a_list_m"] = Array([x[8], x[9]], "m")
    p["a_tuple_cm"] = Array((x[10], x[11]), "cm", "depth")
    p["a_np_m"] = Array(_arr([x[12], x[13]]), "m")
    p["a_np_cm2"] = Array(_arr([x[14], x[15]]), "cm") * Array(_arr([2.0, 2.0]) if not core.is_sym(x[0]) else SymArray([2.0, 2.0]), "cm")
    p["a_list_m2"] = Array([x[16], x[17]], "m") * Array([1.0, 1.0], "m")
    p["f_list_m"] = FixedArray(2, [x[18], x[19]], "m")
    p["f_np_cm"] = FixedArray(2, _arr([x[20], x[21]]), "cm")
    p["fs_in"] = FractionScalar(x[22], "in")
    p["fs_frac_in"] = FractionScalar(FractionValue(x[23], (3, 4)), "in")
    return p


def _is_zero(v):
    return bool(v == 0)  # forks on a proxy


def _other_unit(o):
    u = o.GetUnit()
    return {"m": "cm", "cm": "m", "degC": "K", "in": "m", "m2": None, "Pa(g)": "Pa"}.get(u)


def apply_op(op, a, b, V):
    from barril.units import Array, ChangeScalars, FixedArray, FractionScalar, ObtainQuantity, Scalar, UnitDatabase

    k = V["k"]
    if op in ("iadd", "isub", "imul", "idiv", "ifdiv"):
        import operator

        return {"iadd": operator.iadd, "isub": operator.isub, "imul": operator.imul, "idiv": operator.itruediv, "ifdiv": operator.ifloordiv}[op](a, b)
    if op == "imul_num":
        import operator

        return operator.imul(a, k)
    if op == "CheckValues_dim":
        if not isinstance(a, FixedArray):
            return None
        a.CheckValues((k, k, k), 3)  # a public validator asked about ANOTHER dimension
        try:
            a.CheckValues((k,), 1)
        except ValueError:
            pass
        return None
    if op == "ValidateValues":
        return a.ValidateValues(a.GetAbstractValue(), a.GetQuantity()) if isinstance(a, Array) else None
    if op == "GetValues_twice":
        u = _other_unit(a)
        if not u:
            return None
        return (a.GetAbstractValue(u), a.GetAbstractValue(u), a.CreateCopy(unit=u).GetAbstractValue(a.GetUnit()))
    if op == "add":
        return a + b
    if op == "sub":
        return a - b
    if op == "mul":
        return a * b
    if op == "div":
        return a / b
    if op == "fdiv":
        return a // b
    if op == "radd_num":
        return k + a
    if op == "rdiv_num":
        return k / a
    if op == "mul_num":
        return a * k
    if op == "eq":
        return a == b
    if op == "ne":
        return a != b
    if op == "lt":
        return a < b
    if op == "le":
        return a <= b
    if op == "GetValue_other":
        u = _other_unit(a)
        return a.GetAbstractValue(u) if u else a.GetAbstractValue()
    if op == "GetValue_own":
        return a.GetAbstractValue(a.GetUnit())
    if op == "CreateCopy":
        return a.CreateCopy()
    if op == "CreateCopy_unit":
        u = _other_unit(a)
        return a.CreateCopy(unit=u) if u else a.CreateCopy()
    if op == "CreateCopy_value":
        v = a.GetAbstractValue()
        return a.CreateCopy(v)
    if op == "IsValid":
        return a.IsValid()
    if op == "CheckValidity":
        return a.CheckValidity()
    if op == "str":
        return len(str(a)) > 0
    if op == "repr":
        return len(repr(a)) > 0
    if op == "GetFormatted":
        return len(a.GetFormatted()) > 0 if hasattr(a, "GetFormatted") else len(a.GetFormattedSuffix()) > 0
    if op == "copy":
        return copy.copy(a)
    if op == "deepcopy":
        return copy.deepcopy(a)
    if op == "pickle":
        return pickle.loads(pickle.dumps(a))
    if op == "pickle_all":
        # history: every picklable pool member goes through a round trip in ONE process, in pool order, then in reverse order
        bad = []
        members = [(n, o) for n, o in _POOL_NOW[0].items() if type(o).__name__ in ("Scalar", "FixedArray")]
        for n, o in members + members[::-1]:
            back = pickle.loads(pickle.dumps(o))
            if not (back == o) or back != o or back.GetUnit() != o.GetUnit() or back.GetCategory() != o.GetCategory():
                bad.append(n)
        return bad
    if op == "hash":
        return hash(a) is not None
    if op == "db.Convert":
        u = _other_unit(a)
        if not u:
            return None
        return UnitDatabase.GetSingleton().Convert(a.GetQuantityType(), a.GetUnit(), u, a.GetAbstractValue())
    if op in ("ChangingIndex", "ChangingIndex_num", "ChangingIndex_keep"):
        if not isinstance(a, FixedArray):
            return None
        if op == "ChangingIndex":
            return a.ChangingIndex(0, Scalar(k, "km"))
        if op == "ChangingIndex_num":
            return a.ChangingIndex(1, k)
        return a.ChangingIndex(0, Scalar(k, a.GetUnit()), use_value_unit=False)
    if op == "IndexAsScalar":
        return a.IndexAsScalar(1, ObtainQuantity("km", "length")) if isinstance(a, FixedArray) else None
    if op == "FromScalars":
        if isinstance(a, Scalar) and a.GetCategory() in ("length", "depth"):
            return Array.FromScalars([a, Scalar(k, "km"), a], unit="cm")
        return None
    if op == "ConvertFractionValue":
        if isinstance(a, FractionScalar):
            return (FractionScalar.ConvertFractionValue(a.GetValue(), a.GetQuantity(), "in", "m"), a.GetValue("ft"))
        return None
    if op == "ChangeScalars":
        class O:
            pass

        o = O()
        o.v = a
        u = _other_unit(a)
        ChangeScalars(o, v=(None, u)) if (u and isinstance(a, Scalar)) else None
        return o.v
    if op == "pow2":
        return a ** 2 if isinstance(a, Scalar) else None
    if op == "neg_cmp":
        return (a > a, a >= a) if isinstance(a, (Scalar, FractionScalar)) else None
    if op == "GetValidUnits":
        return len(a.GetQuantity().GetValidUnits()) >= 0 if not a.GetQuantity().IsDerived() else None
    if op == "iter_len":
        return (len(a), list(iter(a)), a[0]) if isinstance(a, Array) else None
    raise KeyError(op)


EXPECTED_EXC = (ZeroDivisionError, TypeError, ValueError, NotImplementedError, AttributeError, pickle.PicklingError)


_POOL_NOW = [None]


def _step(pool, op, a, b, V):
    _POOL_NOW[0] = pool
    before = {n: snap_value(o) for n, o in pool.items()}
    owned = {n: o.GetAbstractValue() for n, o in pool.items()}
    exc = None
    res = None
    try:
        res = apply_op(op, pool[a], pool[b] if b else None, V)
    except (core.Abort, core.HarnessError, core.Infeasible):
        raise
    except Exception as e:  # noqa - failing operations are part of the alphabet
        from barril.units import UnitsError

        if not isinstance(e, EXPECTED_EXC + (UnitsError,)):
            raise
        exc = type(e).__name__
    after = {n: snap_value(o) for n, o in pool.items()}
    changed = [n for n in pool if before[n] != after[n]]
    same_containers = all(pool[n].GetAbstractValue() is owned[n] for n in pool)
    return res, exc, changed, same_containers


def run(cfg, V):
    # a fresh database per run: a corrupted cached quantity must not survive into the replay of the very step that corrupted it
    from barril.units import Quantity

    from .common import fresh_posc_db, pushed

    Quantity._EMPTY_QUANTITY = None
    with pushed(fresh_posc_db()):
        return _run(cfg, V)


def _run(cfg, V):
    from barril.units import Array, FractionScalar, Scalar

    pool = make_pool(V)
    res, exc, changed, same = _step(pool, cfg["op"], cfg["a"], cfg.get("b"), V)
    out = {"exc": exc, "changed": changed, "same_containers": same}
    a = pool[cfg["a"]]
    op = cfg["op"]
    if exc is None and op == "pickle_all":
        out["pickle_all_bad"] = res
    if exc is None:
        if op in ("iadd", "isub", "imul", "idiv", "ifdiv", "imul_num", "add", "sub", "mul", "div", "fdiv", "radd_num", "rdiv_num", "mul_num", "CreateCopy", "CreateCopy_unit", "CreateCopy_value", "ChangingIndex",
                  "ChangingIndex_num", "ChangingIndex_keep", "IndexAsScalar", "FromScalars", "pow2") and res is not None:
            out["fresh"] = all(res is not o for o in pool.values())
            rv_ = res.GetAbstractValue()
            import numpy

            if isinstance(rv_, (list, numpy.ndarray)) and not op.startswith("CreateCopy"):
                out["fresh_container"] = all(rv_ is not o.GetAbstractValue() for o in pool.values())
        if op in ("copy", "deepcopy", "CreateCopy", "pickle"):
            picklable = type(a).__name__ in ("Scalar", "FixedArray")
            if (op != "pickle" or picklable) and not cfg["a"].startswith("a_np_nonfinite"):  # (a NaN element is unequal to itself: no equality claim for NaN storage)
                out["copy_equal"] = bool(res == a) and not bool(res != a)
                out["copy_same_unit"] = res.GetUnit() == a.GetUnit() and res.GetCategory() == a.GetCategory()
    if "then" in cfg and exc is None:
        if res is not None and hasattr(res, "GetQuantity"):
            pool["_r"] = res
        op2 = cfg["then"]["op"]
        tgt = "_r" if "_r" in pool else cfg["a"]
        r2, exc2, changed2, same2 = _step(pool, op2, tgt, cfg["then"]["b"], V)
        out["changed"] = changed + changed2
        out["same_containers"] = same and same2
        out["exc2"] = exc2
    return out


def props(cfg, T, obs):
    if isinstance(obs, Raised):
        if obs.isa(ZeroDivisionError):
            return []  # zero divisor while building the pool
        return [("no unexpected exception type from a public operation", False)]
    P = [("copy, deepcopy, CreateCopy() and comparison/formatting operations succeed on every pool member",
          not (cfg["op"] in ("copy", "deepcopy", "CreateCopy", "CreateCopy_value", "str", "repr", "GetFormatted", "eq", "ne", "IsValid", "GetValue_own", "pickle_all") and obs["exc"] is not None)),
         ("no operand changed (values, container contents, unit, category, dimension, fraction parts)", obs["changed"] == []),
         ("every value object still holds the very container it was given", bool(obs["same_containers"]))]
    if "pickle_all_bad" in obs:
        P.append(("pickle round trips of all Scalars/FixedArrays of the pool in one process are equal (no cross-talk between them)", obs["pickle_all_bad"] == []))
    if "fresh" in obs:
        P.append(("the result is a new object", bool(obs["fresh"]) and obs.get("fresh_container", True)))
    if "copy_equal" in obs:
        P.append(("copy/deepcopy/CreateCopy()/pickle round trip equals the original", bool(obs["copy_equal"]) and bool(obs["copy_same_unit"])))
    if cfg.get("canary"):
        P.append(("canary:multiplication raises", obs["exc"] is not None))
    return P


def finding_key(cfg, name):
    return "%s(%s%s)%s :: %s" % (cfg["op"], cfg["a"], "," + cfg["b"] if cfg.get("b") else "", " then %s" % cfg["then"] if "then" in cfg else "", name)
