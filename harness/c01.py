"""C01 - unit conversion is invertible, path-independent and strictly increasing, for every unit
pair of every database the library builds by itself. Symbolic: the amount(s). Enumerated: the table."""
import itertools
import random

import z3

from symx.check import Raised, raised
from symx.core import approx, term

from .common import get_db, seeded_sample

PID = "C01"
FUNCTIONS = [
    "every UnitInfo.tobase / UnitInfo.frombase closure built by posc.MakeCustomaryToBase / MakeBaseToCustomary / UnitInfo.MakeLambda",
    "UnitDatabase.Convert (float, list/tuple and registered numpy.ndarray branches, same-unit shortcut)", "RegisterConversion.ConvertNumpyArray", "UnitDatabase.GetInfo", "UnitDatabase.AddUnitBase identity pair",
    "UnitDatabase.FillSimple", "UnitDatabase.FillUnitDatabaseWithPosc",
]
BOUNDS = {
    "quick": "values: all reals (no magnitude bound); table: every unit of the three shipped databases (per-unit inverse, monotone, "
             "base identity); ordered pairs: every unit <-> its base unit plus a seeded sample of 2500 other pairs; triples: seeded 600",
    "thorough": "values: all reals; table: every unit, EVERY ordered pair of every quantity type through the real Convert; triples: all "
                "triples of quantity types with <= 25 units plus a seeded sample of up to 40000 elsewhere",
}
BOUNDS_ALSO = '; also (both tiers): container values (list, tuple, numpy array, ragged list of tuples through Array.GetValues) through the same Convert for every pair involving an offset or unit-scale unit plus a seeded sample (element = float conversion, second conversion equal, container untouched, u->w = u->v->w); u->u over ALL IEEE doubles (z3 Float64) for float/list/tuple/ndarray values and for the Quantity/Scalar route with an equal-but-not-identical unit string; the published POSC coefficients of every row against its closure'
BOUNDS = {k_: v_ + BOUNDS_ALSO for k_, v_ in BOUNDS.items()}
ASSUMPTIONS = [
    "A-FP: floats are exact reals, float literals lifted to their exact rational value; rounding magnitude is outside the claim",
    "numeric equality is |a-b| <= 1e-13*(|a|+|b|+1) decided over the reals",
    "A-SHIM: shims behave as the shadowed builtins on non-proxy arguments",
    "same_fp configurations: z3 Float64 = IEEE-754 binary64, round-nearest-even; numpy element loops are the python operator per element",
]
EXHAUSTIVE = {"quick": False, "thorough": False}
DBS = ["default", "posc_nocat", "simple"]
CHUNK = 60


def items(tier, seed):
    out = []
    rng = random.Random(seed)
    for dbn in DBS:
        db = get_db(dbn)
        canary_done = False
        for qt in db.GetQuantityTypes():
            units = db.GetUnits(qt)
            base = units[0]
            for i, u in enumerate(units):
                cfg = {"k": "unit", "db": dbn, "qt": qt, "u": u, "base": i == 0}
                if not canary_done and i > 0 and dbn != "posc_nocat" and qt == "length":
                    cfg["canary"] = True
                    canary_done = True
                out.append(cfg)
            pairs = [(u, v) for u in units for v in units]
            if tier == "quick":
                basep = [(u, v) for (u, v) in pairs if u == base or v == base]
                out += [{"k": "pair", "db": dbn, "qt": qt, "u": u, "v": v} for u, v in basep]
            else:
                out += [{"k": "pair", "db": dbn, "qt": qt, "u": u, "v": v} for u, v in pairs]
                if 3 <= len(units) <= 25 and dbn != "posc_nocat":
                    out += [{"k": "triple", "db": dbn, "qt": qt, "u": u, "v": v, "w": w}
                            for u, v, w in itertools.permutations(units, 3)]
    # unit symbols that differ only in case (mm / Mm, mW / MW ...) are a classic source of mix-ups: always checked as pairs, both databases
    for dbn in ("default", "posc_nocat"):
        db = get_db(dbn)
        for qt in db.GetQuantityTypes():
            units = db.GetUnits(qt)
            low = {}
            for u in units:
                low.setdefault(u.lower(), []).append(u)
            for grp in low.values():
                for u in grp:
                    for v in grp:
                        if u != v:
                            out.append({"k": "pair", "db": dbn, "qt": qt, "u": u, "v": v})
                            out.append({"k": "triple", "db": dbn, "qt": qt, "u": u, "v": units[0], "w": v})
    # the [(unit, exponent)] form of Convert on scale-only pairs
    db = get_db("default")
    exp_pairs = []
    for qt in db.GetQuantityTypes():
        us = [u for u in db.GetUnits(qt) if getattr(db.GetInfo(qt, u).tobase, "__a__", 0.0) == 0.0]
        exp_pairs += [(qt, u, v) for u in us[:6] for v in us[:6] if u != v]
    for qt, u, v in seeded_sample(exp_pairs, 120 if tier == "quick" else 3000, seed + 5):
        out.append({"k": "exp", "db": "default", "qt": qt, "u": u, "v": v, "e": rng.choice([2, 3, -1, -2, -3])})
    # container values (list, tuple, numpy array) through the same Convert: every pair that involves an offset or a unit-scale (factor 1)
    # unit - the places where a shortcut is tempting - plus a seeded sample of the rest, and the expression-string units of the simple filler
    for dbn in DBS:
        db = get_db(dbn)
        special, rest = [], []
        for qt in db.GetQuantityTypes():
            units = db.GetUnits(qt)

            def _special(u):
                tb = db.GetInfo(qt, u).tobase
                return getattr(tb, "__a__", 0.0) != 0.0 or getattr(tb, "__d__", 0.0) != 0.0 or (getattr(tb, "__b__", 1.0) == getattr(tb, "__c__", 1.0))

            sp = [u for u in units if _special(u)]
            for u in units:
                for v in units:
                    if u == v:
                        continue
                    (special if (u in sp or v in sp) and (u == units[0] or v == units[0] or (u in sp and v in sp)) else rest).append((qt, u, v, units))
        chosen = (special if dbn != "posc_nocat" or tier != "quick" else seeded_sample(special, 150, seed + 9)) + seeded_sample(rest, 200 if tier == "quick" else 4000, seed + 8)
        # u -> u in IEEE-754 double semantics (z3 Float64): every value kind gets back bit-identical amounts (sign of zero, NaN included)
        sp_units = sorted({(qt, u) for qt, u, v, units in special} | {(qt, v) for qt, u, v, units in special})
        for j, (qt, u) in enumerate(sp_units + seeded_sample([(qt, u) for qt, u, v, units in rest], 60 if tier == "quick" else 1500, seed + 7)):
            if dbn != "posc_nocat":
                out.append({"k": "same_fp", "db": dbn, "qt": qt, "u": u, "cont": ("float", "list", "tuple", "numpy", "quantity")[j % 5]})
        for j, (qt, u, v, units) in enumerate(chosen):
            w = units[(units.index(v) + 1 + j) % len(units)]
            out.append({"k": "containers", "db": dbn, "qt": qt, "u": u, "v": v, "w": w, "cont": ("list", "tuple", "numpy", "tuples")[j % 4]})
    # seeded extras
    db = get_db("default")
    allp, allt = [], []
    for qt in db.GetQuantityTypes():
        units = db.GetUnits(qt)
        if tier == "quick":
            allp += [("default", qt, u, v) for u in units[1:] for v in units[1:] if u != v]
        if len(units) >= 3:
            k = 3 if tier == "quick" else 60
            for _ in range(k):
                u, v, w = rng.sample(units, 3)
                allt.append(("default", qt, u, v, w))
    if tier == "quick":
        out += [{"k": "pair", "db": d, "qt": qt, "u": u, "v": v} for d, qt, u, v in seeded_sample(allp, 2500, seed)]
        out += [{"k": "triple", "db": d, "qt": qt, "u": u, "v": v, "w": w} for d, qt, u, v, w in seeded_sample(allt, 600, seed)]
    else:
        out += [{"k": "triple", "db": d, "qt": qt, "u": u, "v": v, "w": w} for d, qt, u, v, w in seeded_sample(allt, 40000, seed)]
    for i, c in enumerate(out):
        if c["k"] in ("pair", "triple", "containers") and i % 2 == 0 and c["db"] != "simple":
            c["prelude"] = True  # history: the documented pass-through conversion of an Unknown-quantity value between the same units comes first
    rng.shuffle(out)
    return out


def inputs(cfg):
    if cfg["k"] == "same_fp":
        return {"x": "fp"}
    return {"x": "real", "y": "real"} if cfg["k"] in ("unit", "exp", "containers") else {"x": "real"}


def run(cfg, V):
    db = get_db(cfg["db"])
    x = V["x"]
    if cfg["k"] == "unit":
        info = db.GetInfo(cfg["qt"], cfg["u"])
        y = V["y"]
        from .common import coef_tobase

        return {"coef": coef_tobase(db, cfg["qt"], cfg["u"], x), "tb_x": info.tobase(x), "tb_y": info.tobase(y), "fb_x": info.frombase(x), "fb_y": info.frombase(y),
                "fb_tb_x": info.frombase(info.tobase(x)), "tb_fb_x": info.tobase(info.frombase(x))}
    if cfg["k"] == "same_fp":
        from .c10 import _container

        if cfg["cont"] == "quantity":
            # the Quantity / Scalar route, with the unit given as an equal but NOT identical string (as read from a file)
            from barril.units import Scalar
            from barril.units._quantity import Quantity
            from .common import pushed

            u2 = (cfg["u"] + "_")[:-1]
            with pushed(db):
                q = Quantity(cfg["qt"], cfg["u"]) if cfg["qt"] in db.categories_to_quantity_types else None
                if q is None:
                    return {"same": x, "n": 1}
                a, b = q.ConvertScalarValue(x, u2), Scalar(q, x).GetValue(u2)
            return {"same": a, "same2": b, "n": 1}
        c = x if cfg["cont"] == "float" else _container(cfg["cont"], [x])
        same = db.Convert(cfg["qt"], cfg["u"], cfg["u"], c)
        return {"same": same if cfg["cont"] == "float" else list(same)[0], "n": 1 if cfg["cont"] == "float" else len(same)}
    qt, u, v = cfg["qt"], cfg["u"], cfg["v"]
    if cfg.get("prelude"):
        from barril.units import UNKNOWN_QUANTITY_TYPE

        for a, b in ((u, v), (v, u), (u, cfg.get("w", v)), (v, cfg.get("w", u))):
            db.Convert(UNKNOWN_QUANTITY_TYPE, a, b, 1.0)
            db.Convert(UNKNOWN_QUANTITY_TYPE, a, b, [1.0])
    if cfg["k"] == "containers":
        from .c10 import _container

        w = cfg["w"]
        xs = [x, V["y"]]
        if cfg["cont"] == "tuples":
            # a list of tuples of DIFFERENT lengths (2-D points mixed with 1-D ones) through Array.GetValues
            from barril.units import Array
            from .common import pushed

            flat = lambda r: [e for t in r for e in t]  # noqa: E731
            with pushed(db):
                cat = qt if qt in db.categories_to_quantity_types else None
                if cat is None:
                    return {"skip": True}
                c = [(x, V["y"]), (V["y"],), (x, x, V["y"])]
                A = Array(c, u, cat)
                r1 = A.GetValues(v)
                r2 = A.GetValues(v)
                back = Array(r1, v, cat).GetValues(u)
                uw = A.GetValues(w)
                uvw = Array(r1, v, cat).GetValues(w)
                same = A.GetValues(u)
            xs6 = flat(c)
            return {"same": flat(same), "r1": flat(r1), "r2": flat(r2), "uw": flat(uw), "uvw": flat(uvw), "back": flat(back), "after": flat(A.GetValues()), "xs": xs6,
                    "float": [db.Convert(qt, u, v, t) for t in xs6], "same_type": "rows" + str([len(t) for t in same]), "r_type": "rows" + str([len(t) for t in r1]), "c_type": "rows[2, 1, 3]"}
        c = _container(cfg["cont"], xs)
        same = db.Convert(qt, u, u, c)
        r1 = db.Convert(qt, u, v, c)
        r2 = db.Convert(qt, u, v, c)  # history: the same container converted again
        uw = db.Convert(qt, u, w, c)
        uvw = db.Convert(qt, v, w, r1)
        back = db.Convert(qt, v, u, r1)
        return {"same": list(same), "r1": list(r1), "r2": list(r2), "uw": list(uw), "uvw": list(uvw), "back": list(back), "after": list(c), "xs": xs,
                "float": [db.Convert(qt, u, v, t) for t in xs], "same_type": type(same).__name__, "r_type": type(r1).__name__, "c_type": type(c).__name__,
                "fresh": r1 is not c}
    if cfg["k"] == "exp":
        e = cfg["e"]
        y = V["y"]
        r = db.Convert(qt, [(u, e)], [(v, e)], x)
        ry = db.Convert(qt, [(u, e)], [(v, e)], y)
        back = db.Convert(qt, [(v, e)], [(u, e)], r)
        return {"r": r, "ry": ry, "back": back}
    if cfg["k"] == "pair":
        same = db.Convert(qt, u, u, x)
        r = db.Convert(qt, u, v, x)
        back = db.Convert(qt, v, u, r)
        iu, iv = db.GetInfo(qt, u), db.GetInfo(qt, v)
        direct = iv.frombase(iu.tobase(x)) if u != v else x
        return {"same_is_x": same is x, "r": r, "back": back, "direct": direct}
    w = cfg["w"]
    uw = db.Convert(qt, u, w, x)
    uv = db.Convert(qt, u, v, x)
    uvw = db.Convert(qt, v, w, uv)
    return {"uw": uw, "uvw": uvw}


def props(cfg, T, obs):
    if isinstance(obs, Raised):
        if cfg["k"] == "exp" and cfg["e"] < 0 and obs.isa(ValueError):
            return []  # 0 ** (1/negative): math domain error for the amount 0 (stated exemption of the exponent route)
        # a conversion inside one quantity type never raises for a finite amount (no poles in the table)
        return [("no-exception", False)]
    x = T["x"]
    if cfg["k"] == "same_fp":
        from symx.core import lift_fp

        return [("u->u gives back the bit-identical double (IEEE-754 semantics), whatever the value kind", z3.And(z3.BoolVal(obs["n"] == 1), lift_fp(obs["same"]) == x,
                                                                                                                  lift_fp(obs.get("same2", obs["same"])) == x))]
    if cfg["k"] == "unit":
        y = T["y"]
        P = [
            ("frombase(tobase(x))~x", approx(obs["fb_tb_x"], x)),
            ("tobase(frombase(x))~x", approx(obs["tb_fb_x"], x)),
            ("tobase-strictly-increasing", z3.Implies(x < y, term(obs["tb_x"]) < term(obs["tb_y"]))),
            ("frombase-strictly-increasing", z3.Implies(x < y, term(obs["fb_x"]) < term(obs["fb_y"]))),
        ]
        if obs.get("coef") is not None:
            P.append(("the to-base closure computes the POSC formula (A + B x) / (C + D x) of the coefficients the row publishes", approx(obs["tb_x"], obs["coef"])))
        if cfg.get("canary"):
            P.append(("canary:tobase-of-non-base-unit-is-identity", approx(obs["tb_x"], x)))
        return P
    if cfg["k"] == "exp":
        from .common import slope_of, zpow, oracle_convert

        db = get_db(cfg["db"])
        e = cfg["e"]
        ratio = slope_of(lambda t: oracle_convert(db, cfg["qt"], cfg["u"], cfg["v"], t))
        y = T["y"]
        P = [("Convert with exponents: value ~ x * ratio^e (sign kept)", approx(obs["r"], x * zpow(ratio, e))), ("exponent form round trip", approx(obs["back"], x))]
        if e % 2 == 1:
            P.append(("odd exponents keep the order of two amounts", z3.Implies(z3.And(x < y, x != 0, y != 0) if e < 0 else x < y,
                                                                              (term(obs["r"]) < term(obs["ry"])) if e > 0 else z3.BoolVal(True))))
        return P
    if cfg["k"] == "containers" and obs.get("skip"):
        return []
    if cfg["k"] == "containers":
        n = len(obs["xs"])
        ident = lambda A, B: len(A) == len(B) and all(z3.is_true(z3.simplify(term(a) == term(b))) for a, b in zip(A, B))  # noqa: E731
        return [
            ("container u->u gives every element back exactly", ident(obs["same"], obs["xs"])),
            ("a conversion leaves the given container as it was", ident(obs["after"], obs["xs"])),
            ("converting the same container twice gives the same amounts", z3.And(*[approx(a, b) for a, b in zip(obs["r1"], obs["r2"])]) if len(obs["r2"]) == n else False),
            ("container element ~ the float conversion of that element", z3.And(*[approx(a, b) for a, b in zip(obs["r1"], obs["float"])]) if len(obs["r1"]) == n else False),
            ("container u->w ~ u->v->w", z3.And(*[approx(a, b) for a, b in zip(obs["uw"], obs["uvw"])]) if len(obs["uw"]) == n == len(obs["uvw"]) else False),
            ("container u->v->u ~ x", z3.And(*[approx(a, b) for a, b in zip(obs["back"], obs["xs"])]) if len(obs["back"]) == n else False),
            ("the container kind is kept", obs["same_type"] == obs["r_type"] == obs["c_type"]),
        ]
    if cfg["k"] == "pair":
        return [
            ("u->u-returns-the-same-object", bool(obs["same_is_x"])),
            ("u->v->u~x", approx(obs["back"], x)),
            ("Convert=frombase_v(tobase_u)", approx(obs["r"], obs["direct"])),
        ]
    return [("u->w~u->v->w", approx(obs["uw"], obs["uvw"]))]


def finding_key(cfg, name):
    us = "/".join(cfg[k] for k in ("u", "v", "w") if k in cfg)
    return "%s:%s:%s:%s:%s" % (cfg["db"], cfg["k"], cfg["qt"], us, name)
