"""C06 - named compound units agree with the composition of their parts.
Enumerated (the quantifier is the table): every row whose symbol the unit grammar decomposes into registered
symbols, and every SI-prefixed row matched by symbol and registered name. Symbolic: the amount x."""
import random
import re
from fractions import Fraction

import z3

from symx import core
from symx.check import Raised
from symx.core import approx, SymReal, rv, term, zabs

from .common import get_db, mag_of, qmap, slope_of

PID = "C06"
FUNCTIONS = ["every UnitInfo.tobase closure of the POSC table (posc.FillUnitDatabaseWithPosc rows)", "Scalar.__mul__/__truediv__/__pow__ on the component units "
             "(UnitDatabase.Multiply/Divide/_MatchQuantities/_ConvertToMatchedUnit)", "UnitDatabase.GetInfo"]
BOUNDS = {
    "quick": "values: all reals; EVERY decomposable row (symbol grammar: '.'-separated factors, one '/', integer exponent suffixes, numeric multipliers, '1/') and "
             "every SI-prefixed row (symbol = prefix + symbol and name = prefix name + name of another row); operator cross-check on a seeded third of the rows",
    "thorough": "same rows; operator cross-check (real Scalar arithmetic on the components) on every decomposable row",
}
BOUNDS_ALSO = "; also (both tiers): operator cross-check on every row; the unit string of the built Scalar parsed back against the row's components (components of distinct quantity types); the row's factor through list and tuple conversion; a refused AddUnit of the row's symbol with other formulas before converting (every 25th row in quick, every 4th in thorough); exact-by-definition constants (foot, inch, yard, mile, nautical mile, pound, g, atm) carry no error budget"
BOUNDS = {k_: v_ + BOUNDS_ALSO for k_, v_ in BOUNDS.items()}
ASSUMPTIONS = ["A-FP", "A-TABLE: the oracle's unit grammar and SI-prefix list are the specification (written from the property text)",
               "'to the precision the table is written in' = relative tolerance = sum over the literals involved (the row's and its components', weighted by |exponent|) of one unit in the literal's last "
               "written digit (literals with <= 3 significant digits - 1000, 60, 2.54, 0.5 - count as exact); never tighter than 1e-9",
               "temperature units inside compounds use the slope (temperature difference), not the offset", "symbols whose grammar reading is debatable are "
               "excluded by the explicit list EXCLUDED (recorded in evidence), not recorded as findings"]
EXHAUSTIVE = {"quick": True, "thorough": True}
CHUNK = 30
SI = {"Y": (24, "yotta"), "Z": (21, "zetta"), "E": (18, "exa"), "P": (15, "peta"), "T": (12, "tera"), "G": (9, "giga"), "M": (6, "mega"), "k": (3, "kilo"),
      "h": (2, "hecto"), "da": (1, "deka"), "d": (-1, "deci"), "c": (-2, "centi"), "m": (-3, "milli"), "u": (-6, "micro"), "n": (-9, "nano"), "p": (-12, "pico"),
      "f": (-15, "femto"), "a": (-18, "atto")}
# grammar readings that are not products of table units although they parse (a base in parentheses, gauge references, standard conditions ...)
EXCLUDED = {"scf(60F)", "mol(lbm)", "mol(kg)", "mol(g)",
            # binary multiples by convention (kByte = 1024 Byte) although named with SI prefixes
            "kByte", "MByte", "GByte", "TByte", "kbyte", "Mbyte", "Gbyte", "Tbyte"}
# component tokens whose symbol is ambiguous inside compounds ('F' is farad as a row but degree Fahrenheit in 'Btu/lbmol.F')
AMBIGUOUS_COMPONENTS = {"F"}
# registered symbols that look like a power of another registered symbol but are not ('Mm3' is the oilfield "thousand m3", not megametre cubed)
NOT_A_POWER = {"Mm3"}


def _factor(tok, U):
    m = re.match(r"^(.*?)(\d+)$", tok)
    if m and m.group(1) in U and tok not in NOT_A_POWER:
        return [(m.group(1), int(m.group(2)))]  # a power of a registered symbol is read as a power even when 'cm2' is a row itself
    if tok in U:
        return [(tok, 1)]
    return None


def parse(sym, U):
    """-> (multiplier Fraction, [(unit, exp)]) or None"""
    if sym.count("/") > 1 or sym in EXCLUDED:
        return None
    num, _, den = sym.partition("/")
    mult, out = Fraction(1), []
    for part, sign in ((num, 1), (den, -1)):
        if part == "":
            if sign == -1:
                continue
            return None
        for tok in part.split("."):
            if tok == "1" and sign == 1 and part == "1":
                continue
            f = _factor(tok, U)
            if f is None:
                m = re.match(r"^(\d+(?:[eE]\d+)?)(.+)$", tok)
                if m:
                    f = _factor(m.group(2), U)
                    if f is not None:
                        mult *= Fraction(m.group(1)) ** sign if "e" not in m.group(1).lower() else Fraction(float(m.group(1))) ** sign
                if f is None:
                    return None
            out += [(u, e * sign) for u, e in f]
    if len(out) == 1 and out[0] == (sym, 1) and mult == 1:
        return None
    if any(u in EXCLUDED or u in AMBIGUOUS_COMPONENTS for u, _e in out):
        return None
    return mult, out


def si_prefixed(sym, info, U):
    """sym = prefix + other symbol and name = prefix name + other name"""
    if sym in EXCLUDED:
        return None
    for p, (e, pname) in SI.items():
        if sym.startswith(p) and sym[len(p):] in U and len(sym) > len(p):
            base = U[sym[len(p):]]
            if base.quantity_type == info.quantity_type and info.name.lower().replace(" ", "") == (pname + base.name).lower().replace(" ", ""):
                m = re.match(r"^(.*?)(\d+)$", sym[len(p):])
                power = int(m.group(2)) if (m and m.group(1) in U) else 1  # 'GPa2' is (GPa)^2: the prefix is raised to the power too
                return e * power, sym[len(p):]
    return None


def _sig_digits(v):
    m = repr(float(v)).lower().split("e")[0].replace(".", "").replace("-", "").lstrip("0").rstrip("0")
    return len(m) if len(m) >= 4 else 99


def _coeffs(info):
    f = info.tobase
    return [getattr(f, "__b__", 1.0), getattr(f, "__c__", 1.0)] if hasattr(f, "__a__") else []


def items(tier, seed):
    db = get_db("default")
    U = db.unit_to_unit_info
    rng = random.Random(seed)
    out = []
    for sym, info in U.items():
        p = parse(sym, U)
        if p is not None:
            mult, comps = p
            out.append({"k": "compound", "u": sym, "mult": [str(mult.numerator), str(mult.denominator)], "comps": [[c, e] for c, e in comps],
                        "ops": True})
            continue
        s = si_prefixed(sym, info, U)
        if s is not None:
            out.append({"k": "prefix", "u": sym, "exp10": s[0], "base": s[1]})
    # rows of one quantity type that share their registered NAME (kgf.m/dega / kgf.m/rad ...): the Scalar route between them converts like the closures
    byname = {}
    for sym, info in U.items():
        if info.quantity_type in db.categories_to_quantity_types:
            byname.setdefault((info.quantity_type, info.name), []).append(sym)
    for (_qt, _nm), syms in sorted(byname.items()):
        if len(syms) > 1:
            for a_ in syms:
                for b_ in syms:
                    if a_ != b_:
                        out.append({"k": "same_name", "u": a_, "v": b_})
    # history: a PRIVATE database defining the same symbols with other factors was used just before (nothing of it may reach the shipped table)
    for sym in ("ft/s", "kPa", "lbm/ft3", "km/h", "MPa", "1/galUS"):
        out.append({"k": "after_private_database", "u": sym})
    # history: a registration of the row's symbol with OTHER formulas was refused just before; the row must still carry the shipped factor
    rows = [c for c in out if c["k"] in ("compound", "prefix")]
    for c in rows[::(25 if tier == "quick" else 4)]:
        out.append({"k": "after_refused_addunit", "u": c["u"]})
    out.append({"k": "count", "n_compound": sum(1 for c in out if c["k"] == "compound"), "n_prefix": sum(1 for c in out if c["k"] == "prefix")})
    for c in out:
        if c["k"] == "compound" and c["u"] == "ft/min":
            c["canary"] = True
    rng.shuffle(out)
    return out


def inputs(cfg):
    return {"x": "real"}


def run(cfg, V):
    from barril.units import Scalar

    if cfg["k"] == "count":
        return dict(cfg)
    if cfg["k"] == "same_name":
        from .common import pushed

        d0 = get_db("default")
        iu, iv = d0.unit_to_unit_info[cfg["u"]], d0.unit_to_unit_info[cfg["v"]]
        with pushed(d0):
            s = Scalar(V["x"], cfg["u"])
            vals = [s.GetValue(cfg["v"]), s.CreateCopy(unit=cfg["v"]).GetValue(), s.GetQuantity().ConvertScalarValue(V["x"], cfg["v"]), d0.Convert(iu.quantity_type, cfg["u"], cfg["v"], V["x"])]
        return {"vals": vals, "want": iv.frombase(iu.tobase(V["x"]))}
    if cfg["k"] == "after_private_database":
        from barril.units import UnitDatabase
        from .common import fresh_posc_db, pushed

        ref = get_db("default").unit_to_unit_info[cfg["u"]]
        priv = UnitDatabase()
        priv.AddUnitBase(ref.quantity_type, "private base", "pb")
        priv.AddUnit(ref.quantity_type, "private " + ref.name, cfg["u"], lambda t: t / 7.0, lambda t: t * 7.0)
        priv.AddCategory(ref.quantity_type, ref.quantity_type)
        sdb = fresh_posc_db()  # built BEFORE the private database is used; no registration happens afterwards
        base_u = sdb.GetUnits(ref.quantity_type)[0]
        with pushed(priv):
            pv = [priv.Convert(ref.quantity_type, cfg["u"], "pb", V["x"]), Scalar(V["x"], cfg["u"]).GetValue("pb"), priv.GetInfo(ref.quantity_type, cfg["u"]).unit]
        with pushed(sdb):
            vals = [sdb.Convert(ref.quantity_type, cfg["u"], base_u, V["x"]), Scalar(V["x"], cfg["u"]).GetValue(base_u), sdb.Convert(ref.quantity_type, cfg["u"], base_u, [V["x"]])[0]]
        return {"vals": vals, "want": ref.tobase(V["x"]), "private": pv[:2], "private_want": V["x"] * 7.0}
    if cfg["k"] == "after_refused_addunit":
        from .common import fresh_posc_db, pushed

        sdb = fresh_posc_db()
        info = sdb.unit_to_unit_info[cfg["u"]]
        qt, base_u = info.quantity_type, sdb.GetUnits(info.quantity_type)[0]
        with pushed(sdb):
            before = Scalar(V["x"], cfg["u"]).GetValue(base_u) if qt in sdb.categories_to_quantity_types else None
            try:
                sdb.AddUnit(qt, "another " + info.name, cfg["u"], "%f / 1000.0", "%f * 1000.0")
                refused = False
            except RuntimeError:
                refused = True
            vals = [sdb.Convert(qt, cfg["u"], base_u, V["x"]), sdb.Convert(qt, cfg["u"], base_u, [V["x"]])[0]]
            if qt in sdb.categories_to_quantity_types:
                vals += [Scalar(V["x"], cfg["u"]).GetValue(base_u), before]
            back = sdb.Convert(qt, base_u, cfg["u"], vals[0])
        return {"refused": refused, "vals": vals, "back": back, "want": get_db("default").unit_to_unit_info[cfg["u"]].tobase(V["x"])}
    db = get_db("default")
    U = db.unit_to_unit_info
    x = V["x"]
    info = U[cfg["u"]]
    zero = 0.0 if not core.is_sym(x) else SymReal(z3.RealVal(0))
    o = {"named": info.tobase(x), "named0": info.tobase(zero)}
    base_u = db.GetUnits(info.quantity_type)[0]
    # the row's factor as the public conversion applies it to container values
    o["named_cont"] = [db.Convert(info.quantity_type, cfg["u"], base_u, [x])[0], db.Convert(info.quantity_type, cfg["u"], base_u, (x,))[0]]
    if cfg["k"] == "compound" and cfg.get("ops"):
        comps = cfg["comps"]
        # the same amount built by the REAL operators from Scalars in the component units
        def mk(amount, c):
            return Scalar(amount, c, U[c].quantity_type if U[c].quantity_type in db.categories_to_quantity_types else None)

        # numerator and denominator are each built as a product of powers, then divided: (a * b**2) / (c**2 * d)
        num, den = None, None
        for c, e in comps:
            f = mk(1.0, c) ** abs(e) if abs(e) > 1 else mk(1.0, c)
            if e > 0:
                num = f if num is None else num * f
            else:
                den = f if den is None else den * f
        acc = (num * x if num is not None else x)
        if den is not None:
            acc = acc / den
        o["built"] = (acc.GetValue(), qmap(acc))
        o["built_unit"] = acc.GetUnit()
        if all(getattr(U[c].tobase, "__a__", 0.0) == 0.0 for c, _e in comps):
            # the same construction with every component replaced by the base unit of its quantity type; the quotient must be the pure number x*K
            bnum, bden = None, None
            for c, e in comps:
                bu = db.GetUnits(U[c].quantity_type)[0]
                f = mk(1.0, bu) ** abs(e) if abs(e) > 1 else mk(1.0, bu)
                if e > 0:
                    bnum = f if bnum is None else bnum * f
                else:
                    bden = f if bden is None else bden * f
            bacc = bnum if bnum is not None else 1.0
            if bden is not None:
                bacc = bacc / bden
            ratio = acc / bacc
            o["ratio"] = (ratio.GetValue(), qmap(ratio))
        if len(comps) == 1 and mk(1.0, comps[0][0]).GetQuantityType() in db.categories_to_quantity_types and getattr(U[comps[0][0]].tobase, "__a__", 0.0) == 0.0:
            # a single-component power / reciprocal row of a scale-only unit (an offset has no meaning under an exponent): the built scalar re-expressed in the base unit with the same exponent (exponent conversion route)
            c, e = comps[0]
            base_c = db.GetUnits(U[c].quantity_type)[0]
            o["built_in_base"] = acc.GetValue([(base_c, e)])
    return o


def _ulp_rel(v):
    """one unit in the last written digit of a literal, relative to the literal (0 for literals with <= 3 significant digits: exact by definition)"""
    m = repr(float(v)).lower().split("e")[0].replace(".", "").replace("-", "").lstrip("0").rstrip("0")
    if len(m) < 4 or m in EXACT_BY_DEFINITION:
        return Fraction(0)
    return Fraction(1, 10 ** (len(m) - 1)) / Fraction(int(m), 10 ** (len(m) - 1))


# digit strings of conversion constants that are exact by international definition (foot, inch, yard, mile, nautical mile, pound, standard gravity, atmosphere)
EXACT_BY_DEFINITION = {"3048", "254", "9144", "1609344", "45359237", "1852", "980665", "101325"}


def _tol(cfg, U):
    """error budget of a row against its composition: each literal involved may be off by one unit in its last written digit, weighted by its exponent"""
    t = Fraction(0)
    names = [(cfg["u"], 1)] + ([(c, abs(e)) for c, e in cfg["comps"]] if cfg["k"] == "compound" else [(cfg["base"], 1)])
    for n, w in names:
        for v in _coeffs(U[n]):
            t += w * _ulp_rel(v)
    return max(t, Fraction(1, 10**9))


def props(cfg, T, obs):
    if isinstance(obs, Raised):
        if obs.isa(ZeroDivisionError):
            return []
        if obs.isa(ValueError) and cfg["k"] == "compound" and len(cfg["comps"]) == 1 and cfg["comps"][0][1] < 0:
            return []  # the exponent conversion route takes 0 ** (1/negative): math domain error for the amount 0 (C02 states this exemption)
        return [("the row's closure and the component arithmetic do not raise", False)]
    if cfg["k"] == "same_name":
        return [("rows that share a registered name are still different units: the Scalar / Quantity / database routes between them convert like the closures",
                 z3.And(*[approx(v, obs["want"]) for v in obs["vals"]]))]
    if cfg["k"] == "after_private_database":
        return [("a private database that defines the symbol differently does not leak into the shipped table (nor the other way round)",
                 z3.And(*[approx(v, obs["want"]) for v in obs["vals"]], *[approx(v, obs["private_want"]) for v in obs["private"]]))]
    if cfg["k"] == "after_refused_addunit":
        return [("a registration of an existing symbol is refused", bool(obs["refused"])),
                ("after the refused registration the row converts with its shipped factor on every route", z3.And(*[approx(v, obs["want"]) for v in obs["vals"]], approx(obs["back"], T["x"])))]
    if cfg["k"] == "count":
        return [("the grammar still decomposes the table (about 950 compound and 150 prefixed rows expected)", obs["n_compound"] >= 700 and obs["n_prefix"] >= 80)]
    db = get_db("default")
    U = db.unit_to_unit_info
    x = T["x"]
    named = term(obs["named"]) - term(obs["named0"])
    if cfg["k"] == "compound":
        K = rv(Fraction(int(cfg["mult"][0]), int(cfg["mult"][1])))
        for c, e in cfg["comps"]:
            sl = slope_of(U[c].tobase)
            for _ in range(abs(e)):
                K = K * sl if e > 0 else K / sl
    else:
        K = slope_of(U[cfg["base"]].tobase) * rv(Fraction(10) ** cfg["exp10"])
    K = z3.simplify(K)
    tol = rv(_tol(cfg, U))
    P = [("factor to base = product of the components' factors, to the precision the table is written in", zabs(named - x * K) <= tol * zabs(x * K))]
    P.append(("the row's factor is applied alike to a float, a list and a tuple", z3.And(*[approx(c, obs["named"]) for c in obs["named_cont"]])))
    if "built_unit" in obs and int(cfg["mult"][0]) == int(cfg["mult"][1]) == 1:
        want = {}
        for c, e in cfg["comps"]:
            want[c] = want.get(c, 0) + e
        want = sorted((c, e) for c, e in want.items() if e != 0)
        got = parse(obs["built_unit"], U)
        qts_ = [U[c].quantity_type for c, _e in want]
        if (len(want) > 1 or (want and want[0][1] != 1)) and len(set(qts_)) == len(qts_):  # (components of one quantity type are matched to one unit by the operators)
            gotd = {}
            for c, e in (got[1] if got else []):
                gotd[c] = gotd.get(c, 0) + e
            P.append(("the unit string of the built Scalar names the same components with the same exponents as the row",
                      got is not None and got[0] == 1 and sorted((c, e) for c, e in gotd.items() if e != 0) == want))
    if "built" in obs:
        bv, bq = obs["built"]
        # base magnitude of the value built by the real operators from the components (x in the first component, 1 elsewhere)
        P.append(("a Scalar in the named unit and the same amount built with * and / from Scalars in the component units are the same physical amount",
                  zabs(named - mag_of(bv, bq) * rv(Fraction(int(cfg["mult"][0]), int(cfg["mult"][1])))) <= tol * zabs(named) + rv(Fraction(1, 10**13))))
    if "ratio" in obs:
        rv_, rq = obs["ratio"]
        mult = rv(Fraction(int(cfg["mult"][0]), int(cfg["mult"][1])))
        P.append(("dividing the built Scalar by the same construction in base units gives the dimensionless factor of the row",
                  z3.And(z3.BoolVal(rq == []), zabs(named - term(rv_) * mult) <= tol * zabs(named) + rv(Fraction(1, 10**13)))))
    if "built_in_base" in obs:
        mult = rv(Fraction(int(cfg["mult"][0]), int(cfg["mult"][1])))
        P.append(("the built Scalar converted to the base unit (same exponent) equals the named row's base amount",
                  zabs(named - term(obs["built_in_base"]) * mult) <= tol * zabs(named) + rv(Fraction(1, 10**13))))
    if cfg.get("canary"):
        P.append(("canary:ft/min has the factor of ft", zabs(named - x * slope_of(U["ft"].tobase)) <= tol * zabs(x) * 2))
    return P


def finding_key(cfg, name):
    if cfg["k"] in ("same_name", "after_private_database"):
        return "%s %s %s :: %s" % (cfg["k"], cfg["u"], cfg.get("v", ""), name)
    if cfg["k"] == "after_refused_addunit":
        return "after a refused AddUnit of the symbol %s :: %s" % (cfg["u"], name)
    if "u" in cfg and (name.startswith("the unit string of the built") or name.startswith("the row's factor is applied alike")):
        return "table row %s :: %s" % (cfg["u"], name)
    return "table row %s disagrees with the product of its components" % cfg["u"] if "u" in cfg else "%s :: %s" % (cfg["k"], name)
