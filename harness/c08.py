"""C08 - comparisons are coherent: order follows physical amount, equality is total.
Symbolic: both amounts. Enumerated: unit pairs of every quantity type (order), ordered pairs of value
objects of 9 classes + unrelated python objects (equality)."""
import random

import z3

from symx import core
from symx.check import Raised
from symx.core import term
from symx.shims import SymArray

from .common import get_db, oracle_convert, seeded_sample

PID = "C08"
FUNCTIONS = ["Scalar.__lt__/__le__/__gt__/__ge__/__eq__/__ne__/__hash__", "FractionScalar.__lt__/__le__/__gt__/__ge__/__eq__", "Array.__eq__", "FixedArray.__eq__",
             "Quantity.__eq__/__hash__", "Curve.__eq__", "UnitSystem.__eq__", "Fraction.__eq__/__lt__/__old_cmp__", "FractionValue.__eq__/__ne__/__lt__...",
             "AbstractValueWithQuantityObject.__ne__"]
BOUNDS = {
    "quick": "values: all reals; order: every unit <-> base unit of every quantity type (both directions) + 700 seeded other pairs for Scalar, 120 pairs for "
             "FractionScalar; same-unit comparisons over ALL IEEE doubles (NaN/inf) for 12 units; equality: all ordered pairs of a pool of 44 objects "
             "(9 classes x simple/derived/empty/unknown x list/tuple/numpy containers of length 0..3, equal and unequal) and 6 unrelated python objects",
    "thorough": "order: EVERY ordered unit pair of every quantity type for Scalar, 3000 pairs for FractionScalar; rest as quick",
}
BOUNDS_ALSO = '; also: pool members beyond the float range (10^400 as int and as Fraction numerator), Scalars differing only by caption or by the order of operations behind one unit text, unit systems filled in another order; physical amounts of Scalars read from the published coefficients of both rows where available'
BOUNDS = {k_: v_ + BOUNDS_ALSO for k_, v_ in BOUNDS.items()}
ASSUMPTIONS = ["A-FP; physical amount phys(a) = tobase_u(x) from the real closures (strictly increasing by C01)", "A-HASH: CPython float hash is a function of the value "
               "(proxy hash = congruence token under the path condition)", "FP mode for same-unit comparisons: z3 Float64", "a<=b or b<=a is claimed for finite values only"]
CHUNK = 40


def items(tier, seed):
    rng = random.Random(seed)
    db = get_db("default")
    out = []
    allp = []
    for qt in db.GetQuantityTypes():
        if qt not in db.categories_to_quantity_types:
            continue
        us = db.GetUnits(qt)
        if tier == "quick":
            for u in us[1:]:
                out.append({"k": "order", "cls": "Scalar", "qt": qt, "u": u, "v": us[0]})
                out.append({"k": "order", "cls": "Scalar", "qt": qt, "u": us[0], "v": u})
            allp += [(qt, u, v) for u in us[1:] for v in us[1:] if u != v]
        else:
            out += [{"k": "order", "cls": "Scalar", "qt": qt, "u": u, "v": v} for u in us for v in us]
            allp += [(qt, u, v) for u in us for v in us]
    if tier == "quick":
        out += [{"k": "order", "cls": "Scalar", "qt": qt, "u": u, "v": v} for qt, u, v in seeded_sample(allp, 700, seed)]
    out += [{"k": "order", "cls": "FractionScalar", "qt": qt, "u": u, "v": v} for qt, u, v in seeded_sample(allp, 120 if tier == "quick" else 3000, seed + 1)]
    out += [{"k": "order", "cls": c, "qt": "length", "u": "m", "v": "cm"} for c in ("Scalar", "FractionScalar")]
    for i, c in enumerate(out):
        if c["k"] == "order":
            if i % 3 == 0:
                c["prelude"] = True  # history: an Unknown-quantity value is converted to both units first
            if c["cls"] == "FractionScalar" and i % 2 == 0:
                c["fr"] = [-1, 2]  # a negative fractional part
    for other in ("unknown", "unknown_caption", "empty", "s", "degC", "m2_derived", "-"):
        for cls in ("Scalar", "FractionScalar"):
            for side in ("left", "right"):
                out.append({"k": "order_cross", "cls": cls, "other": other, "side": side})
    for u in ("m", "cm", "degC", "K", "psi", "kg", "s", "m3/d", "%", "-", "ft", "degF"):
        out.append({"k": "order_fp", "u": u})
    # auxiliary, concrete: extreme magnitudes in mixed units (a C-level helper such as math.isclose reads a proxy as NaN and would hide a tolerance there)
    for qt, u, v in (("length", "m", "cm"), ("length", "cm", "m"), ("length", "km", "mm"), ("time", "s", "ms"), ("time", "h", "us"), ("temperature", "degC", "K"), ("mass", "kg", "mg"),
                     ("pressure", "psi", "Pa")):
        for cls in ("Scalar", "FractionScalar"):
            out.append({"k": "order_aux", "qt": qt, "u": u, "v": v, "cls": cls})
    names = pool_names()
    out += [{"k": "eq", "a": a, "b": b} for a in names for b in names]
    out.append({"k": "order", "cls": "Scalar", "qt": "length", "u": "m", "v": "ft", "canary": True})
    rng.shuffle(out)
    return out


def inputs(cfg):
    if cfg["k"] == "order_fp":
        return {"x": "fp", "y": "fp"}
    return {"x": "real", "y": "real"}


def _arr(xs):
    import numpy

    return SymArray(xs) if (xs and core.is_sym(xs[0])) else numpy.array(xs, dtype=float)


def pool(V):
    from barril.basic.fraction import Fraction, FractionValue
    from barril.curve.curve import Curve
    from barril.units import Array, FixedArray, FractionScalar, GetUnknownQuantity, ObtainQuantity, Quantity, Scalar
    from barril.units.unit_system import UnitSystem

    x, y = V["x"], V["y"]
    p = {}
    p["q_m"] = ObtainQuantity("m")
    p["q_m_depth"] = ObtainQuantity("m", "depth")
    p["q_m_ctor"] = Quantity("length", "m")  # equal to q_m but not the interned instance
    p["q_Mm3"] = ObtainQuantity("Mm3", "volume")
    p["q_Mm3_legacy"] = Quantity("volume", "1000m3")
    p["s_m_x_ctor"] = Scalar(Quantity("length", "m"), x)
    p["q_m2"] = (Scalar(1.0, "m") * Scalar(1.0, "m")).GetQuantity()
    p["q_m.s"] = (Scalar(1.0, "m") * Scalar(1.0, "s")).GetQuantity()  # the same factors ...
    p["q_s.m"] = (Scalar(1.0, "s") * Scalar(1.0, "m")).GetQuantity()  # ... in the other order: a different quantity
    p["s_m.s_x"] = Scalar(x, "m") * Scalar(1.0, "s")
    p["s_s.m_x"] = Scalar(1.0, "s") * Scalar(x, "m")
    p["q_empty"] = Quantity.CreateEmpty()
    p["q_unknownA"] = GetUnknownQuantity("A")
    p["s_m_x"] = Scalar(x, "m")
    p["s_m_y"] = Scalar(y, "m")
    p["s_cm_x"] = Scalar(x, "cm")
    p["s_m2_x"] = Scalar(x, "m") * Scalar(1.0, "m")
    p["s_empty_x"] = Scalar.CreateEmptyScalar(x)
    p["s_unknownA_x"] = Scalar(GetUnknownQuantity("A"), x)
    p["a_list_xy"] = Array([x, y], "m")
    p["a_list_yx"] = Array([y, x], "m")
    p["a_tuple_xy"] = Array((x, y), "m")
    p["a_np_xy"] = Array(_arr([x, y]), "m")
    p["a_list_x"] = Array([x], "m")
    p["a_list_xyx"] = Array([x, y, x], "m")
    p["a_empty_list"] = Array([], "m")
    p["a_empty_np"] = Array(_arr([]), "m")
    p["a_list_xy_cm"] = Array([x, y], "cm")
    p["a_m2"] = Array([x, y], "m") * Array([1.0, 1.0], "m")
    p["a_empty_q"] = Array.CreateEmptyArray([x, y])
    p["f_list_xy"] = FixedArray(2, [x, y], "m")
    p["f_np_xy"] = FixedArray(2, _arr([x, y]), "m")
    p["f_tuple_xyx"] = FixedArray(3, (x, y, x), "m")
    p["f_list_xy_cm"] = FixedArray(2, [x, y], "cm")
    p["fs_x"] = FractionScalar(x, "in")
    p["fs_y"] = FractionScalar(y, "in")
    p["fs_x_half"] = FractionScalar(FractionValue(x, (1, 2)), "in")
    p["fs_x_m"] = FractionScalar(x, "m")
    p["fv_x_half"] = FractionValue(x, (1, 2))
    p["fv_y_2_4"] = FractionValue(y, (2, 4))
    p["fv_x"] = FractionValue(x)
    p["frac_1_2"] = Fraction(1, 2)
    p["frac_2_4"] = Fraction(2, 4)
    p["frac_3"] = Fraction(3)
    p["curve_a"] = Curve(Array([x, y], "m"), Array([1.0, 2.0], "s"))
    p["curve_b"] = Curve(Array([y, x], "m"), Array([1.0, 2.0], "s"))
    p["curve_np"] = Curve(Array(_arr([x, y]), "m"), Array(_arr([1.0, 2.0]), "s"))
    p["us_1"] = UnitSystem("a", "A", {"length": "m"})
    p["us_1b"] = UnitSystem("a", "A", {"length": "m"})
    p["us_2"] = UnitSystem("b", "B", {"length": "cm"})
    p["us_1_superset"] = UnitSystem("a", "A", {"length": "m", "time": "s"})
    p["us_1_other_unit"] = UnitSystem("a", "A", {"length": "cm"})
    p["s_unknownB_x"] = Scalar(GetUnknownQuantity("B"), x)  # differs from s_unknownA_x by the caption only
    p["s_lmt_x"] = Scalar(x, "m") * Scalar(1.0, "kg") / Scalar(1.0, "s")  # same unit TEXT ...
    p["s_ltm_x"] = Scalar(x, "m") / Scalar(1.0, "s") * Scalar(1.0, "kg")  # ... from another order of operations
    p["frac_huge"] = Fraction(10**400, 3)  # finite, beyond the float range
    p["frac_huge_b"] = Fraction(10**400, 3)
    p["fv_huge"] = FractionValue(1, Fraction(10**400, 3))
    p["fs_huge"] = FractionScalar(FractionValue(1, Fraction(10**400, 3)), "in")
    p["py_huge_int"] = 10**400
    p["py_huge_neg"] = -(10**400)
    p["q_m_cap"] = ObtainQuantity("m", "length", "measured depth")  # a caption on a KNOWN unit
    p["s_m_cap_x"] = Scalar(ObtainQuantity("m", "length", "measured depth"), x)
    p["q_m2_cap"] = Quantity.CreateDerived(__import__("collections").OrderedDict([("length", ["m", 2])]), unknown_unit_caption="swept")
    p["frac_3_2"] = Fraction(3, 2)
    p["fv_1_half"] = FractionValue(1, (1, 2))  # the same amount as frac_3_2, another class
    p["fv_1.5"] = FractionValue(1.5)
    p["us_ab"] = UnitSystem("o", "O", {"length": "m", "time": "s"})
    us_ba = UnitSystem("o", "O", {"time": "s"})
    us_ba.SetDefaultUnit("length", "m")  # the same mapping filled in another order
    p["us_ba"] = us_ba
    p["py_None"] = None
    p["py_str"] = "m"
    p["py_int"] = 1
    p["py_tuple"] = ()
    p["py_float"] = 1.5
    p["py_list"] = [1.0, 2.0]
    p["py_pair_zero"] = (1, 0)
    p["py_pair_str"] = ("1", "2")
    p["py_list_none"] = [None, None]
    p["py_pair_ok"] = (1, 2)
    return p


def pool_names():
    return list(pool({"x": 1.0, "y": 2.0}).keys())


def _try(fn):
    try:
        return ("ok", fn())
    except (core.Abort, core.HarnessError, core.Infeasible):
        raise
    except BaseException as e:  # noqa
        return ("raised", type(e).__name__)


def run(cfg, V):
    from barril.basic.fraction import FractionValue
    from barril.units import FractionScalar, Scalar

    x, y = V["x"], V["y"]
    k = cfg["k"]
    if k == "order":
        if cfg.get("prelude"):
            from barril.units import Array, GetUnknownQuantity

            for un in (cfg["u"], cfg["v"]):
                Scalar(GetUnknownQuantity("probe"), 1.0).GetValue(un)
                Array(GetUnknownQuantity(), [1.0, 2.0]).GetValues(un)
        if cfg["cls"] == "Scalar":
            a, b = Scalar(x, cfg["u"], cfg["qt"]), Scalar(y, cfg["v"], cfg["qt"])
        else:
            a, b = FractionScalar(FractionValue(x, tuple(cfg.get("fr", [1, 2]))), cfg["u"], cfg["qt"]), FractionScalar(y, cfg["v"], cfg["qt"])
        return {"ab": (a < b, a <= b, a > b, a >= b), "ba": (b < a, b <= a, b > a, b >= a), "eq": (a == b, b == a, a != b)}
    if k == "order_cross":
        from barril.units import GetUnknownQuantity

        cls = Scalar if cfg["cls"] == "Scalar" else FractionScalar
        a = cls(x, "m")
        o = cfg["other"]
        b = {"unknown": lambda: cls(GetUnknownQuantity(), y), "unknown_caption": lambda: cls(GetUnknownQuantity("cap"), y), "empty": lambda: cls.CreateWithQuantity(
            __import__("barril.units", fromlist=["Quantity"]).Quantity.CreateEmpty(), y), "s": lambda: cls(y, "s"), "degC": lambda: cls(y, "degC"),
             "m2_derived": lambda: cls.CreateWithQuantity((Scalar(1.0, "m") * Scalar(1.0, "m")).GetQuantity(), y), "-": lambda: cls(y, "-")}[o]()
        if cfg["side"] == "left":
            a, b = b, a
        return {"res": [_try(f) for f in (lambda: a < b, lambda: a <= b, lambda: a > b, lambda: a >= b)]}
    if k == "order_aux":
        from fractions import Fraction as _F

        db_ = get_db("default")
        iu, iv = db_.GetInfo(cfg["qt"], cfg["u"]), db_.GetInfo(cfg["qt"], cfg["v"])
        bad = []
        cls = Scalar if cfg["cls"] == "Scalar" else FractionScalar
        for xa, xb in ((1e-10, 5e-8), (5e-8, 1e-10), (1e-12, 2e-12), (3e-9, 1e-9), (1e-15, -1e-15), (1e300, 2e300), (123456789.123, 123456789.124), (1e-9, 1.0), (2e-10, 1e-10), (7e-7, 7.1e-7),
                       (0.0, 1e-11), (-4e-10, 3e-10)):
            a, b = cls(xa, cfg["u"], cfg["qt"]), cls(xb, cfg["v"], cfg["qt"])
            # exact rational physical amounts from the published coefficients (A + B x) / C
            pa, pb = [(_F(i.tobase.__a__) + _F(i.tobase.__b__) * _F(t)) / _F(i.tobase.__c__) if hasattr(i.tobase, "__a__") else _F(t) for i, t in ((iu, xa), (iv, xb))]
            if abs(pa - pb) <= _F(1, 10**9) * max(abs(pa), abs(pb)):
                continue  # amounts this close may legitimately compare either way after float conversion
            got = (a < b, a <= b, a > b, a >= b, b < a, b <= a, b > a, b >= a)
            want = (pa < pb, pa <= pb, pa > pb, pa >= pb, pb < pa, pb <= pa, pb > pa, pb >= pa)
            if got != want:
                bad.append((xa, xb, got, want))
        return {"aux_bad": bad}
    if k == "order_fp":
        a, b = Scalar(x, cfg["u"]), Scalar(y, cfg["u"])
        return {"ab": (a < b, a <= b, a > b, a >= b), "ba": (b < a, b <= a, b > a, b >= a), "eq": (a == b, b == a, a != b)}
    p = pool(V)
    a, b = p[cfg["a"]], p[cfg["b"]]
    o = {"eq_ab": _try(lambda: a == b), "eq_ba": _try(lambda: b == a), "ne_ab": _try(lambda: a != b), "refl": _try(lambda: (a == a, a != a))}
    ha, hb = _try(lambda: hash(a)), _try(lambda: hash(b))
    o["hash"] = (ha, hb)
    return o


def props(cfg, T, obs):
    k = cfg["k"]
    if isinstance(obs, Raised):
        return [("comparison does not raise", False)]
    if k == "order":
        db = get_db("default")
        x, y = T["x"], T["y"]
        pa = oracle_convert(db, cfg["qt"], cfg["u"], db.GetUnits(cfg["qt"])[0], x + (_frac(cfg) if cfg["cls"] == "FractionScalar" else 0))
        pb = oracle_convert(db, cfg["qt"], cfg["v"], db.GetUnits(cfg["qt"])[0], y)
        if cfg["cls"] == "Scalar":
            # physical amounts read from the coefficients the rows PUBLISH, (A + B x) / C, where both rows have them (independent of the closures the comparison itself uses)
            from .common import coef_tobase

            ca, cb = coef_tobase(db, cfg["qt"], cfg["u"], x), coef_tobase(db, cfg["qt"], cfg["v"], y)
            if ca is not None and cb is not None:
                pa, pb = ca, cb
        (lt, le, gt, ge), (lt2, le2, gt2, ge2) = obs["ab"], obs["ba"]
        B = z3.BoolVal
        P = [("a<b, a<=b, a>b, a>=b <=> the same comparison of phys(a), phys(b)",
              z3.And(B(lt) == (pa < pb), B(le) == (pa <= pb), B(gt) == (pa > pb), B(ge) == (pa >= pb))),
             ("== symmetric and != is its negation", obs["eq"][0] == obs["eq"][1] and obs["eq"][2] == (not obs["eq"][0]))]
        strict = [("b<a, b<=a, b>a, b>=a mirror", z3.And(B(lt2) == (pb < pa), B(le2) == (pb <= pa), B(gt2) == (pb > pa), B(ge2) == (pb >= pa))),
                  ("never a>b and b>a", not (gt and gt2)), ("a<=b or b<=a", bool(le or le2))]
        if cfg["cls"] == "Scalar":
            P += strict
        else:
            # b <op> a converts a's FRACTIONAL part to b's unit through barril's float-normalising Fraction, which by design snaps numerators
            # with an absolute tolerance (Fraction.SMALL = 1e-8). The claims that must be PROVED allow that window (in b's unit); the strict
            # readings are evaluated too and are an open known finding (see known_findings.json).
            a_in_b = oracle_convert(db, cfg["qt"], cfg["u"], cfg["v"], x + _frac(cfg))
            frac_in_b = a_in_b - oracle_convert(db, cfg["qt"], cfg["u"], cfg["v"], x)  # the converted 1/2, which goes through Fraction(float)
            d = z3.RealVal("1/100000000") + z3.RealVal("1/1000000000000") * core.zabs(frac_in_b)  # SMALL + double rounding of the converted numerator
            yb = y
            P += [("b<a / b>a agree with the amounts outside the Fraction.SMALL window",
                   z3.And(z3.Implies(yb + d < a_in_b, B(bool(lt2 and le2 and not gt2 and not ge2))), z3.Implies(a_in_b + d < yb, B(bool(gt2 and ge2 and not lt2 and not le2))))),
                  ("a>b and b>a both true only inside the Fraction.SMALL window", z3.Implies(B(bool(gt and gt2)), z3.And(yb - a_in_b <= d, a_in_b - yb <= d))),
                  ("neither a<=b nor b<=a only inside the Fraction.SMALL window", z3.Implies(B(not (le or le2)), z3.And(yb - a_in_b <= d, a_in_b - yb <= d)))]
            P += [(n + " [strict, FractionScalar]", f) for n, f in strict]
        if cfg.get("canary"):
            P.append(("canary:a<b whenever x<y (ignoring units)", B(lt) == (x < y)))
        return P
    if k == "order_aux":
        return [("auxiliary, concrete (not solver-decided): clearly different amounts of extreme magnitude in mixed units are ordered like their exact physical amounts, both operand orders", obs["aux_bad"] == [])]
    if k == "order_cross":
        return [("ordering values of different quantity types raises TypeError (all four operators)", all(r == ("raised", "TypeError") for r in obs["res"]))]
    if k == "order_fp":
        (lt, le, gt, ge), (lt2, le2, gt2, ge2) = obs["ab"], obs["ba"]
        x, y = T["x"], T["y"]
        fin = z3.And(z3.Not(z3.fpIsNaN(x)), z3.Not(z3.fpIsNaN(y)))
        B = z3.BoolVal
        return [("never a>b and b>a (all doubles)", not (gt and gt2)), ("never a<b and b<a (all doubles)", not (lt and lt2)),
                ("a<b <=> x<y (IEEE)", B(lt) == z3.fpLT(x, y)), ("a<=b or b<=a for non-NaN values", z3.Implies(fin, B(bool(le or le2)))),
                ("a<=b <=> x<=y for non-NaN", z3.Implies(fin, B(le) == z3.fpLEQ(x, y))), ("a>=b <=> x>=y for non-NaN", z3.Implies(fin, B(ge) == z3.fpGEQ(x, y)))]
    eq_ab, eq_ba, ne_ab, refl = obs["eq_ab"], obs["eq_ba"], obs["ne_ab"], obs["refl"]
    P = [("== and != never raise", eq_ab[0] == "ok" and eq_ba[0] == "ok" and ne_ab[0] == "ok" and refl[0] == "ok")]
    if P[0][1]:
        P.append(("== is symmetric", bool(eq_ab[1]) == bool(eq_ba[1])))
        P.append(("!= is the negation of ==", bool(ne_ab[1]) == (not bool(eq_ab[1]))))
        P.append(("== is reflexive", bool(refl[1][0]) and not bool(refl[1][1])))
        ha, hb = obs["hash"]
        if ha[0] == "ok" and hb[0] == "ok" and bool(eq_ab[1]):
            P.append(("equal hashable objects have equal hashes", ha[1] == hb[1]))
        if cfg["a"] == cfg["b"]:
            P.append(("an object equals an identically built object", bool(eq_ab[1])))
    return P


def _frac(cfg):
    p, q = cfg.get("fr", [1, 2])
    return z3.RealVal(p) / z3.RealVal(q)


def finding_key(cfg, name):
    if cfg["k"] == "eq":
        return "eq %s vs %s :: %s" % (cfg["a"], cfg["b"], name)
    if cfg["k"] == "order_cross":
        return "order %s(m) vs %s on the %s :: %s" % (cfg["cls"], cfg["other"], cfg["side"], name)
    if name.endswith("[strict, FractionScalar]"):
        return "FractionScalar order, converted fractional part within Fraction.SMALL of equality :: " + name
    return "%s %s %s[%s] vs [%s] :: %s" % (cfg["k"], cfg.get("cls", "Scalar"), cfg.get("qt", ""), cfg["u"], cfg.get("v", cfg["u"]), name)
