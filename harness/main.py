import importlib
import os
import sys


def main(argv):
    if argv and argv[0] == "--replay":
        from symx.check import replay_case

        return replay_case(argv[1])
    pid = argv[0].upper()
    tier = argv[1] if len(argv) > 1 else os.environ.get("VERIF_TIER", "quick")
    os.environ["VERIF_TIER"] = tier
    seed = int(os.environ.get("VERIF_SEED", "20260930"))
    mod = importlib.import_module("harness.%s" % pid.lower())
    if hasattr(mod, "main"):
        return mod.main(tier, seed)
    from symx.check import drive

    return drive(mod, tier, seed)


if __name__ == "__main__":
    sys.exit(main(sys.argv[1:]))
