"""C19 - equivalent construction forms build equal objects.
Enumerated exhaustively: all units, all categories, all categories sharing a unit's quantity type, the
documented forms of the four classes, two construction orders (cache history). Symbolic: the value(s)."""
import random

import z3

from symx import core
from symx.check import Raised

from .common import fresh_posc_db, get_db, pushed

PID = "C19"
FUNCTIONS = ["AbstractValueWithQuantityObject.__init__ (positional juggling)", "Scalar.__init__ (tuple form)", "Array.__init__", "FixedArray.__init__",
             "FractionScalar.__init__", "CreateWithQuantity", "UnitDatabase.GetDefaultCategory", "ObtainQuantity", "Scalar.__repr__", "Scalar._GetDefaultValue"]
BOUNDS = {
    "quick": "values: all reals; EVERY unit of the table x its default category x the documented forms of Scalar, Array, FixedArray, FractionScalar, in two "
             "construction orders on a fresh database (category-less forms first / explicit-category forms for every category of the quantity type first); EVERY "
             "category alone vs default value+unit; eval(repr) with the value printed as a bound identifier",
    "thorough": "same (finite quantifier already exhausted) plus every (unit, category sharing the quantity type) pair for all four classes",
}
BOUNDS_ALSO = "; also: objects built from the category alone after the category was redefined (every category); a category with a symbolic default value; quantity-first forms with captioned quantities; histories in which the unit's default category is registered later than the unit or changes through Clear()+reconfigure (3 first uses each); auxiliary: amounts that are not floats"
BOUNDS = {k_: v_ + BOUNDS_ALSO for k_, v_ in BOUNDS.items()}
ASSUMPTIONS = ["A-FP", "A-REPR: repr(float) round-trips; the symbolic value prints as an identifier bound to itself in the eval namespace, so the repr TEMPLATE "
               "(argument order, quoting) is what is decided for all values; a fixed list of hard floats (0.1+0.2, 1/3, 5e-324, 1.7976931348623157e308, -0.0) is "
               "additionally evaluated concretely as an auxiliary sub-check"]
EXHAUSTIVE = {"quick": True, "thorough": True}
CHUNK = 12
HARD = [0.1 + 0.2, 1.0 / 3.0, 5e-324, 1.7976931348623157e308, -0.0, 123456789.12345679, 1e22, 2.5]


def items(tier, seed):
    db = get_db("default")
    out = []
    for u, info in db.unit_to_unit_info.items():
        if db.GetDefaultCategory(u) is None:
            out.append({"k": "nocat", "u": u})
            continue
        for order in (0, 1):
            out.append({"k": "unit", "u": u, "order": order, "all_cats": tier != "quick" or order == 1})
    for c in db.IterCategories():
        out.append({"k": "cat", "c": c})
        out.append({"k": "cat_redefined", "c": c})
    for u in ("m", "degC", "psi"):
        out.append({"k": "aux_exotic_values", "u": u})
    out.append({"k": "cat_fractional_default"})
    for hist in ("late_default_category", "clear_reconfigure"):
        for first in ("value_first", "tuple", "obtain"):
            out.append({"k": "history", "h": hist, "first": first})
    for hist in ("captioned_lookup_first", "category_after_rejected_lookup", "other_database_rejected_pair"):
        for u in ("m", "degC", "<unknown>", "mi", "psi"):
            out.append({"k": "history2", "h": hist, "u": u})
    for cap_kind in ("unknown", "known_unit", "derived"):
        out.append({"k": "captioned", "q": cap_kind})
    out[0]["canary"] = True
    random.Random(seed).shuffle(out)
    return out


def inputs(cfg):
    return {"v": "real", "w": "real"}


def _all_equal(objs):
    first = objs[0]
    bad = []
    for i, o in enumerate(objs[1:], 1):
        if not (first == o) or (first != o) or not (o == first):
            bad.append(i)
    return bad


def run(cfg, V):
    from barril.units import Array, FixedArray, FractionScalar, ObtainQuantity, Scalar

    v, w = V["v"], V["w"]
    db = fresh_posc_db()
    with pushed(db):
        if cfg["k"] == "nocat":
            try:
                Scalar(v, cfg["u"])
            except Exception as e:  # noqa
                return {"nocat_exc": type(e).__name__}
            return {"nocat_exc": None}
        if cfg["k"] == "history2":
            from barril.units import UnitDatabase

            u = cfg["u"]
            if cfg["h"] == "captioned_lookup_first":
                # a CAPTIONED quantity of the unit was obtained by unit alone before; the caption-less forms must not inherit it
                ObtainQuantity(u, unknown_unit_caption="as logged")
                Scalar(ObtainQuantity(u, None, "as logged"), w)
                use_db = db
            elif cfg["h"] == "category_after_rejected_lookup":
                # a database in which the unit's quantity type has no category yet: the lookup by unit alone is refused, then the category is registered
                use_db = UnitDatabase()
                info = db.unit_to_unit_info[u]
                use_db.AddUnitBase(info.quantity_type, "base", "b0")
                use_db.AddUnit(info.quantity_type, info.name, u, lambda t: t * 2.0, lambda t: t / 2.0)
                with pushed(use_db):
                    for first in (lambda: Scalar(w, u), lambda: ObtainQuantity(u), lambda: use_db.GetDefaultCategory(u)):
                        try:
                            first()
                        except Exception:  # noqa
                            pass
                    use_db.AddCategory(info.quantity_type, info.quantity_type)
            else:
                # another database was current for a while and refused this (category, unit) pair; nothing of that may reach the stock database
                other = UnitDatabase()
                info = db.unit_to_unit_info[u]
                other.AddUnitBase(info.quantity_type, "base", "b0")
                other.AddCategory(db.GetDefaultCategory(u), info.quantity_type)
                with pushed(other):
                    for first in (lambda: Scalar(1.0, u, db.GetDefaultCategory(u)), lambda: other.CheckCategoryUnit(db.GetDefaultCategory(u), u), lambda: ObtainQuantity(u, db.GetDefaultCategory(u))):
                        try:
                            first()
                        except Exception:  # noqa
                            pass
                use_db = fresh_posc_db() if False else db
            with pushed(use_db):
                c = use_db.GetDefaultCategory(u)
                q = ObtainQuantity(u, c)
                sc = [Scalar(v, u), Scalar(v, u, c), Scalar(c, v, u), Scalar((v, u)), Scalar(q, v), Scalar.CreateWithQuantity(q, v)]
                ar = [Array([v, w], u), Array([v, w], u, c), Array(c, [v, w], u), Array(q, [v, w]), Array.CreateWithQuantity(q, [v, w])]
                fx = [FixedArray(2, [v, w], u), FixedArray(2, c, [v, w], u), FixedArray(2, q, [v, w])]
                fr = [FractionScalar(v, u), FractionScalar(v, u, c), FractionScalar(q, v)]
                return {"scalar": _all_equal(sc), "array": _all_equal(ar), "fixed": _all_equal(fx), "fraction": _all_equal(fr),
                        "captions": [o.GetQuantity().GetUnknownCaption() for o in sc + ar + fx + fr],
                        "repr_ok": eval(repr(sc[0]), dict({k_: v_ for k_, v_ in core._REGISTRY.items() if isinstance(k_, str)}, Scalar=Scalar)) == sc[1]}
        if cfg["k"] == "history":
            # a unit whose default category changes over the life of ONE database object: declared before the category is registered, or re-configured after Clear()
            from barril.units import UnitDatabase

            sdb = UnitDatabase()

            def first_use():
                try:
                    {"value_first": lambda: Scalar(w, "in"), "tuple": lambda: Scalar((w, "in")), "obtain": lambda: ObtainQuantity("in")}[cfg["first"]]()
                except Exception:  # noqa - being refused at this point is fine
                    pass

            with pushed(sdb):
                sdb.AddUnitBase("length", "meters", "m")
                if cfg["h"] == "late_default_category":
                    sdb.AddUnit("length", "inches", "in", lambda t: t * 39.37, lambda t: t / 39.37, default_category="pipe diameter")
                    sdb.AddCategory("length", "length")
                    first_use()
                    sdb.AddCategory("pipe diameter", "length", default_unit="in")
                else:
                    sdb.AddUnit("length", "inches", "in", lambda t: t * 39.37, lambda t: t / 39.37, default_category="length")
                    sdb.AddCategory("length", "length")
                    sdb.AddCategory("pipe diameter", "length", default_unit="in")
                    first_use()
                    sdb.Clear()
                    sdb.AddUnitBase("length", "meters", "m")
                    sdb.AddUnit("length", "inches", "in", lambda t: t * 39.37, lambda t: t / 39.37, default_category="pipe diameter")
                    sdb.AddCategory("length", "length")
                    sdb.AddCategory("pipe diameter", "length", default_unit="in")
                c = sdb.GetDefaultCategory("in")
                q = ObtainQuantity("in", c)
                sc = [Scalar(v, "in"), Scalar(v, "in", c), Scalar(c, v, "in"), Scalar((v, "in")), Scalar(q, v), Scalar.CreateWithQuantity(q, v)]
                ar = [Array([v, w], "in"), Array([v, w], "in", c), Array(c, [v, w], "in"), Array(q, [v, w]), Array.CreateWithQuantity(q, [v, w])]
                fr = [FractionScalar(v, "in"), FractionScalar(v, "in", c), FractionScalar(q, v)]
                return {"c": c, "scalar": _all_equal(sc), "array": _all_equal(ar), "fraction": _all_equal(fr), "cats": [o.GetCategory() for o in sc + ar + fr],
                        "repr_ok": eval(repr(sc[0]), dict({k_: v_ for k_, v_ in core._REGISTRY.items() if isinstance(k_, str)}, Scalar=Scalar)) == sc[1]}
        if cfg["k"] == "cat_fractional_default":
            # a category whose default value has a fractional part (all stock categories default to 0)
            db.AddCategory("c19 frac", "length", default_unit="in", default_value=v)
            c = "c19 frac"
            return {"scalar": _all_equal([Scalar(c), Scalar(v, "in", c), Scalar(c, v, "in"), Scalar(ObtainQuantity("in", c), v), Scalar.CreateWithQuantity(ObtainQuantity("in", c), v)]),
                    "fraction": _all_equal([FractionScalar(c), FractionScalar(v, "in", c), FractionScalar(c, v, "in"), FractionScalar(ObtainQuantity("in", c), v), FractionScalar.CreateWithQuantity(ObtainQuantity("in", c), v)]),
                    "array": _all_equal([Array(c), Array([], "in", c)]), "fixed": _all_equal([FixedArray(2, c), FixedArray(2, c, [0.0, 0.0], "in")]), "unit": (Scalar(c).GetUnit(), "in")}
        if cfg["k"] == "aux_exotic_values":
            # auxiliary, concrete: amounts that are not floats (big ints, Decimal, Fraction, bool, numpy scalars) through every Scalar form
            import decimal
            import fractions
            import numpy

            u = cfg["u"]
            c = db.GetDefaultCategory(u)
            q = ObtainQuantity(u, c)
            bad = []
            for val in (2**53 + 1, 10**23, -(10**17) - 1, decimal.Decimal("0.1"), fractions.Fraction(1, 3), True, numpy.float32(0.1), numpy.int64(7), numpy.float64(2.5), 3):
                try:
                    forms = [Scalar(val, u), Scalar(val, u, c), Scalar(c, val, u), Scalar((val, u)), Scalar(q, val), Scalar.CreateWithQuantity(q, val), Scalar(1.0, u).CreateCopy(value=val)]
                    if _all_equal(forms) or any(type(f.GetValue()) is not float for f in forms) or not (eval(repr(forms[5]), {"Scalar": Scalar}) == forms[0]):
                        bad.append((repr(val), _all_equal(forms), [type(f.GetValue()).__name__ for f in forms]))
                except Exception as e:  # noqa
                    bad.append((repr(val), type(e).__name__))
            return {"aux_bad": bad}
        if cfg["k"] == "captioned":
            from collections import OrderedDict
            from barril.units import GetUnknownQuantity, Quantity

            q = {"unknown": lambda: GetUnknownQuantity("Feet"), "known_unit": lambda: ObtainQuantity("m", "length", "as measured"),
                 "derived": lambda: Quantity.CreateDerived(OrderedDict([("length", ["m", 1]), ("time", ["s", -1])]), unknown_unit_caption="flow-ish")}[cfg["q"]]()
            forms = {"scalar": [Scalar(q, v), Scalar.CreateWithQuantity(q, v), Scalar(q, w).CreateCopy(value=v)],
                     "array": [Array(q, [v, w]), Array.CreateWithQuantity(q, [v, w])],
                     "fixed": [FixedArray(2, q, [v, w]), FixedArray.CreateWithQuantity(q, [v, w])],
                     "fraction": [FractionScalar(q, v), FractionScalar.CreateWithQuantity(q, v)]}
            return {"bad": {n: _all_equal(f) for n, f in forms.items()}, "captions": [o.GetQuantity().GetUnknownCaption() for f in forms.values() for o in f],
                    "want_caption": q.GetUnknownCaption()}
        if cfg["k"] == "cat_redefined":
            # history: objects of the category exist, then the category is redefined (same quantity type) with another default unit and value
            c = cfg["c"]
            info = db.GetCategoryInfo(c)
            units = db.GetUnits(info.quantity_type)
            du2 = [u for u in units if u != info.default_unit][:1] or [info.default_unit]
            Scalar(c), Array(c), FixedArray(2, c), FractionScalar(c), ObtainQuantity(None, c)
            db.AddCategory(c, info.quantity_type, override=True, default_unit=du2[0], default_value=v)
            return {"scalar": _all_equal([Scalar(c), Scalar(v, du2[0], c), Scalar(c, v, du2[0]), Scalar(ObtainQuantity(du2[0], c), v)]),
                    "fraction": _all_equal([FractionScalar(c), FractionScalar(v, du2[0], c)]),
                    "array": _all_equal([Array(c), Array([], du2[0], c)]), "fixed": _all_equal([FixedArray(2, c), FixedArray(2, c, [0.0, 0.0], du2[0])]),
                    "unit": (Scalar(c).GetUnit(), du2[0])}
        if cfg["k"] == "cat":
            c = cfg["c"]
            info = db.GetCategoryInfo(c)
            dv, du = info.default_value, info.default_unit
            res = {}
            res["scalar"] = _all_equal([Scalar(c), Scalar(dv, du, c), Scalar(c, dv, du), Scalar(ObtainQuantity(du, c)), Scalar(ObtainQuantity(du, c), dv)])
            first = Array(c)
            first.values.append(v)  # the caller fills the default container of the first object ...
            first.values.append(w)
            # ... which must not show up in objects built from the category afterwards
            res["array"] = _all_equal([Array(c), Array([], du, c), Array(c, [], du), Array(ObtainQuantity(du, c)), Array(ObtainQuantity(du, c), [])])
            res["array_fresh"] = len(Array(c).values) == 0 and len(Array(ObtainQuantity(du, c)).values) == 0 and len(first.values) == 2
            f1 = FixedArray(3, c)
            f1.values[0] = v
            res["fixed_fresh"] = FixedArray(3, c) == FixedArray(3, c, [0.0] * 3, du)
            res["fixed"] = _all_equal([FixedArray(3, c), FixedArray(3, [0.0] * 3, du, c) if False else FixedArray(3, c, [0.0] * 3, du), FixedArray(3, ObtainQuantity(du, c)),
                                       FixedArray(3, ObtainQuantity(du, c), [0.0] * 3)])
            res["fraction"] = _all_equal([FractionScalar(c), FractionScalar(c, dv, du), FractionScalar(dv, du, c), FractionScalar(ObtainQuantity(du, c), dv)])
            s = Scalar(c)
            res["meta"] = (s.GetUnit() == du, s.GetCategory() == c, s.GetValue() is dv or s.GetValue() == dv)
            return res
        u = cfg["u"]
        c = db.GetDefaultCategory(u)
        qt = db.unit_to_unit_info[u].quantity_type
        others = [k for k in db.IterCategories() if db.GetCategoryQuantityType(k) == qt and k != c] if cfg["all_cats"] else []

        def with_cat(cc):
            q = ObtainQuantity(u, cc)
            sc = [Scalar(v, u, cc), Scalar(cc, v, u), Scalar(q, v), Scalar.CreateWithQuantity(q, v), Scalar(v, u, cc).CreateCopy(), Scalar(w, u, cc).CreateCopy(value=v)]
            ar = [Array([v, w], u, cc), Array(cc, [v, w], u), Array(q, [v, w]), Array.CreateWithQuantity(q, [v, w])]
            fx = [FixedArray(2, [v, w], u, cc) if False else FixedArray(2, cc, [v, w], u), FixedArray(2, q, [v, w]), FixedArray.CreateWithQuantity(q, [v, w]),
                  FixedArray.CreateWithQuantity(q, [v, w], dimension=2)]
            fr = [FractionScalar(v, u, cc), FractionScalar(cc, v, u), FractionScalar(q, v), FractionScalar.CreateWithQuantity(q, v)]
            return sc, ar, fx, fr

        def no_cat():
            return ([Scalar(v, u), Scalar((v, u)), Scalar(ObtainQuantity(u), v)], [Array([v, w], u), Array(ObtainQuantity(u), [v, w])],
                    [FixedArray(2, [v, w], u), FixedArray(2, ObtainQuantity(u), [v, w])], [FractionScalar(v, u), FractionScalar(ObtainQuantity(u), v)])

        other_bad = []
        if cfg["order"] == 0:
            nc = no_cat()
            wc = with_cat(c)
        else:
            for cc in others:
                for grp in with_cat(cc):
                    if _all_equal(grp):
                        other_bad.append(cc)
            wc = with_cat(c)
            nc = no_cat()
        if cfg["order"] == 0:
            for cc in others:
                for grp in with_cat(cc):
                    if _all_equal(grp):
                        other_bad.append(cc)
        res = {"bad": {}, "other_bad": sorted(set(other_bad))}
        for name, a, b in zip(("scalar", "array", "fixed", "fraction"), nc, wc):
            res["bad"][name] = _all_equal(a + b)
        s = nc[0][0]
        res["meta"] = (s.GetCategory() == c, s.GetUnit() == u, s.GetQuantityType() == qt)
        # repr: the proxy prints itself as an identifier bound in the eval namespace
        ns = dict(core._REGISTRY)
        r = repr(s)
        ns.update({k: val for k, val in core._REGISTRY.items() if isinstance(k, str)})
        ns["Scalar"] = Scalar
        try:
            back = eval(r, ns)
            res["repr_ok"] = bool(back == s) and type(back) is Scalar
        except Exception as e:  # noqa
            res["repr_ok"] = "eval failed: %s: %s" % (type(e).__name__, r)
        hard_bad = []
        for f in HARD:
            hs = Scalar(f, u, c)
            try:
                hb = eval(repr(hs), {"Scalar": Scalar, "inf": float("inf"), "nan": float("nan")})
                if not (hb == hs) and not (f != f):
                    hard_bad.append(f)
            except Exception as e:  # noqa
                hard_bad.append(f)
        res["hard_bad"] = hard_bad
        return res


def props(cfg, T, obs):
    if isinstance(obs, Raised):
        return [("every documented construction form is accepted", False)]
    if cfg["k"] == "nocat":
        return [("a unit without any default category is rejected with UnitsError, not built inconsistently", obs["nocat_exc"] in ("UnitsError", "InvalidUnitError", "InvalidQuantityTypeError"))]
    if cfg["k"] == "aux_exotic_values":
        return [("auxiliary, concrete (not solver-decided): amounts that are not floats (big ints, Decimal, Fraction, bool, numpy scalars) build equal Scalars holding a float in every form", obs["aux_bad"] == [])]
    if cfg["k"] == "history2":
        return [("whatever lookups happened before (a captioned quantity obtained by unit alone, a refused lookup before the category existed, another database refusing the pair), "
                 "every form builds equal caption-less objects", obs["scalar"] == [] and obs["array"] == [] and obs["fixed"] == [] and obs["fraction"] == []
                 and all(c_ == "" for c_ in obs["captions"]) and bool(obs["repr_ok"]))]
    if cfg["k"] == "history":
        return [("whatever happened to the database object before (the default category registered later than the unit, Clear() and a new configuration), every form builds equal objects of the "
                 "unit's CURRENT default category", obs["c"] == "pipe diameter" and obs["scalar"] == [] and obs["array"] == [] and obs["fraction"] == []
                 and all(c == obs["c"] for c in obs["cats"]) and bool(obs["repr_ok"]))]
    if cfg["k"] == "cat_fractional_default":
        return [("a category with an arbitrary (fractional) default value: the object built from the category alone equals the one built from default value and unit, every class",
                 obs["scalar"] == [] and obs["fraction"] == [] and obs["array"] == [] and obs["fixed"] == [] and obs["unit"][0] == obs["unit"][1])]
    if cfg["k"] == "captioned":
        return [("forms taking a captioned quantity build equal objects that keep the caption", all(b == [] for b in obs["bad"].values()) and all(c == obs["want_caption"] for c in obs["captions"]))]
    if cfg["k"] == "cat_redefined":
        return [("after a category is redefined, objects built from the category alone follow the NEW default unit and value",
                 obs["scalar"] == [] and obs["fraction"] == [] and obs["array"] == [] and obs["fixed"] == [] and obs["unit"][0] == obs["unit"][1])]
    if cfg["k"] == "cat":
        return [("Scalar(category) == Scalar(default value, default unit, category) in every form", obs["scalar"] == []),
                ("Array(category) forms equal", obs["array"] == []), ("default containers are not shared between objects", bool(obs["array_fresh"]) and bool(obs["fixed_fresh"])), ("FixedArray(n, category) forms equal", obs["fixed"] == []),
                ("FractionScalar(category) forms equal", obs["fraction"] == []), ("category-alone object carries default unit/category/value", all(obs["meta"]))]
    P = [("Scalar forms build equal objects", obs["bad"]["scalar"] == []), ("Array forms build equal objects", obs["bad"]["array"] == []),
         ("FixedArray forms build equal objects", obs["bad"]["fixed"] == []), ("FractionScalar forms build equal objects", obs["bad"]["fraction"] == []),
         ("forms with another category of the quantity type agree with each other", obs["other_bad"] == []),
         ("the category-less form resolves to the unit's default category", all(obs["meta"])),
         ("eval(repr(scalar)) == scalar (template, all values)", obs["repr_ok"] is True),
         ("eval(repr(scalar)) == scalar for the hard float list (auxiliary, concrete)", obs["hard_bad"] == [])]
    if cfg.get("canary"):
        P.append(("canary:Scalar(v,u) == Scalar(w,u)", T["v"] == T["w"]))
    return P


def finding_key(cfg, name):
    return "%s %s :: %s" % (cfg["k"], cfg.get("u", cfg.get("c")), name) + (" [order %d]" % cfg["order"] if "order" in cfg else "")
