"""C15 - queries are pure and caches are semantically invisible.
History patterns  query(s) - registration - battery of queries  on a warm database, with symbolic amounts
and limits; the registry is snapshotted around every read-only / failing step and every battery answer is
compared (as z3 terms / verdicts on the same path) with the answer of a database freshly built from the
same accepted registrations."""
import itertools
import random

import z3

from symx import core
from symx.check import Raised
from symx.core import term

from .common import pushed, snap_registry

PID = "C15"
FUNCTIONS = ["UnitDatabase.CheckCategoryUnit memo (_category_unit_valid)", "UnitDatabase.quantities_cache / ObtainQuantity", "UnitDatabase.GetValidUnits",
             "AbstractValueWithQuantityObject.GetValidUnits", "Quantity.CheckValue with the captured CategoryInfo", "UnitDatabase.AddUnit/AddUnitBase/AddCategory (invalidation)",
             "UnitDatabase.Convert/GetInfo/GetDefaultCategory/FindUnitCase/GetUnits/GetQuantityTypes", "Scalar/Array/FractionScalar construction and IsValid"]
NQ, NR = 46, 11
BOUNDS = {
    "quick": "amounts and limits: all reals; pre-state: length(m, cm) + time(s) + force per velocity with categories length, depth(min 0), width, damping; histories: one of "
             "%d queries (read-only or failing), then one of %d registrations (accepted or rejected), then the battery of all queries, each answer compared with the answer of "
             "the same query on its OWN brand-new database built from the same registrations; every second of the %dx%d histories (all of them in the thorough tier), plus 4 histories followed by probes of two databases that disagree about a (category, unit) pair, plus 16 histories with two registrations in a row and 20 with "
             "two arithmetic queries in a row" % (NQ, NR, NQ, NR),
    "thorough": "same with two queries before the registration (seeded 7000 of the %dx%dx%d) and a second registration after the first battery (seeded 4000)" % (NQ, NQ, NR),
}
ASSUMPTIONS = ["A-FP", "'fresh database built from the same registrations' = the pre-state registrations plus the history's ACCEPTED registrations, in order",
               "memo tables are not part of the registry snapshot (their invisibility is exactly the second clause)"]
CHUNK = 6


def _pre():
    from barril.units import UnitDatabase

    db = UnitDatabase()
    db.AddUnitBase("length", "meters", "m")
    db.AddUnit("length", "centimeters", "cm", lambda x: x * 100.0, lambda x: x / 100.0)
    db.AddUnitBase("time", "seconds", "s")
    db.AddCategory("length", "length")
    db.AddCategory("time", "time")
    db.AddCategory("depth", "length", min_value=0.0, default_value=5.0)
    db.AddCategory("width", "length", valid_units=["cm"])
    db.AddUnitBase("force per velocity", "newton seconds per metre", "N.s/m")  # (has the legacy spelling 'Ns/m')
    db.AddUnit("force per velocity", "kilonewton seconds per metre", "kN.s/m", lambda x: x / 1000.0, lambda x: x * 1000.0)
    db.AddCategory("damping", "force per velocity")
    db.AddUnitBase("mass", "kilograms", "kg")  # a quantity type WITHOUT any category
    db.AddUnit("mass", "grams", "g", lambda x: x * 1000.0, lambda x: x / 1000.0)
    return db


def queries(V):
    from barril.units import Array, FractionScalar, ObtainQuantity, Scalar, UnitDatabase

    x, y = V["x"], V["y"]
    db = lambda: UnitDatabase.GetSingleton()
    from collections import OrderedDict
    from barril.units import Quantity

    spec = lambda: OrderedDict([("length", ["m", 1]), ("time", ["s", -1])])
    Q = [
        ("CreateDerived(m/s, caption)", lambda: (lambda q: (q.GetUnit(), q.GetUnknownCaption()))(Quantity.CreateDerived(spec(), unknown_unit_caption="flow-ish"))),
        ("CreateDerived(m/s)", lambda: (lambda q: (q.GetUnit(), q.GetUnknownCaption()))(Quantity.CreateDerived(spec()))),
        ("CreateDerived(length:[s,2]) [unit foreign to the category]", lambda: Quantity.CreateDerived(OrderedDict([("length", ["s", 2])])).GetUnit()),
        ("ObtainQuantity([(s,2)],[length]) [unvalidated form]", lambda: ObtainQuantity([("s", 2)], ["length"]).GetUnit()),
        ("db.GetUnits() / GetInfos() without argument", lambda: (len(db().GetUnits()), len(db().GetInfos()), list(db().GetUnits("length")), list(db().GetUnits("time")))),
        ("sum with a left operand holding one quantity type in two units", lambda: (lambda a, b: ((a + b).GetValue(), (a + b).GetUnit(), a.GetUnit(), a.GetQuantity().GetUnitName()))(
            Scalar.CreateWithQuantity(Quantity.CreateDerived(OrderedDict([("length", ["m", 1]), ("width", ["cm", -1])])), x),
            Scalar.CreateWithQuantity(Quantity.CreateDerived(OrderedDict([("length", ["m", 1]), ("width", ["m", -1])])), y))),
        ("Scalar(x,m,c9) [c9 registered later]", lambda: (lambda s: (s.GetValue("cm"), s.GetCategory()))(Scalar(x, "m", "c9"))),
        ("db.CheckCategoryUnit(c9,cm)", lambda: db().CheckCategoryUnit("c9", "cm")),
        ("Scalar(x,m,depth).GetValue(cm)", lambda: Scalar(x, "m", "depth").GetValue("cm")),
        ("Scalar(x,cm).IsValid", lambda: Scalar(x, "cm").IsValid()),
        ("Scalar(x,m,depth).IsValid", lambda: Scalar(x, "m", "depth").IsValid()),
        ("Scalar(x,m).IsValid (category-less)", lambda: (Scalar(x, "m").IsValid(), Scalar(x, "m").GetCategory())),
        ("Scalar(y,km,depth)", lambda: Scalar(y, "km", "depth").GetValue("m")),
        ("ObtainQuantity(m) limits", lambda: (lambda i: (i.min_value, i.max_value, i.default_unit, i.quantity_type))(ObtainQuantity("m").GetCategoryInfo())),
        ("ObtainQuantity(m,depth) limits", lambda: (lambda i: (i.min_value, i.max_value, i.default_unit, i.quantity_type))(ObtainQuantity("m", "depth").GetCategoryInfo())),
        ("db.GetValidUnits(depth)", lambda: list(db().GetValidUnits("depth"))),
        ("db.GetValidUnits(width)", lambda: list(db().GetValidUnits("width"))),
        ("Scalar(x,m,width).GetValidUnits", lambda: list(Scalar(x, "m", "width").GetValidUnits())),
        ("Scalar(x,cm,depth).GetValidUnits", lambda: list(Scalar(x, "cm", "depth").GetValidUnits())),
        ("db.Convert(length,m,km,x)", lambda: db().Convert("length", "m", "km", x)),
        ("ObtainQuantity(km,depth)", lambda: ObtainQuantity("km", "depth").GetUnit()),
        ("db.GetDefaultCategory(km)", lambda: db().GetDefaultCategory("km")),
        ("Scalar(depth) default", lambda: (lambda s: (s.GetValue(), s.GetUnit(), s.IsValid()))(Scalar("depth"))),
        ("Array([x,y],m,depth).IsValid", lambda: Array([x, y], "m", "depth").IsValid()),
        ("db.FindUnitCase(depth,KM)", lambda: db().FindUnitCase("depth", "KM")),
        ("db.GetUnits(length)", lambda: list(db().GetUnits("length"))),
        ("db.CheckQuantityTypeUnit(time,km)", lambda: db().CheckQuantityTypeUnit("time", "km")),
        ("Scalar(x,m)+Scalar(y,s)", lambda: (Scalar(x, "m") + Scalar(y, "s")).GetValue()),
        ("db.GetQuantityTypes/units/categories", lambda: (db().GetQuantityTypes(), sorted(db().unit_to_unit_info), sorted(db().IterCategories()))),
        ("FractionScalar(x,m,depth).IsValid", lambda: FractionScalar(x, "m", "depth").IsValid()),
        # arithmetic that matches the same unit pair under different exponents
        ("m * (cm*cm)", lambda: (lambda r: (r.GetValue(), r.GetUnit()))(Scalar(x, "m") * (Scalar(y, "cm") * Scalar(1.0, "cm")))),
        ("m * (cm*cm*cm)", lambda: (lambda r: (r.GetValue(), r.GetUnit()))(Scalar(x, "m") * (Scalar(y, "cm") * Scalar(1.0, "cm") * Scalar(1.0, "cm")))),
        ("(m*m*m) + (cm*cm*cm)", lambda: (lambda r: (r.GetValue(), r.GetUnit()))((Scalar(x, "m") * Scalar(1.0, "m") * Scalar(1.0, "m")) + (Scalar(y, "cm") * Scalar(1.0, "cm") * Scalar(1.0, "cm")))),
        ("Array m / (cm*cm)", lambda: (lambda r: (list(r.GetValues()), r.GetUnit()))(Array([x, y], "m") / (Array([y, x], "cm") * Array([1.0, 1.0], "cm")))),
        ("(cm*cm) - (m*m)", lambda: (lambda r: (r.GetValue(), r.GetUnit()))((Scalar(x, "cm") * Scalar(1.0, "cm")) - (Scalar(y, "m") * Scalar(1.0, "m")))),
        # a unit whose quantity type has no category at all: refused, and refused again
        ("Scalar(x, g) [no category for the quantity type]", lambda: Scalar(x, "g").GetCategory()),
        ("ObtainQuantity(kg) / Array([x], g) [no category]", lambda: (ObtainQuantity("kg").GetCategory(), Array([x], "g").GetCategory())),
        ("db.Convert(mass, g, kg, x) / categories", lambda: (db().Convert("mass", "g", "kg", x), sorted(db().IterCategories()), db().IsValidCategory("mass"))),
        # similar-unit search and legacy spellings
        ("db.FindSimilarUnitMatches(km)", lambda: sorted(db().FindSimilarUnitMatches("km"))),
        ("db.FindSimilarUnitMatches(cm)", lambda: sorted(db().FindSimilarUnitMatches("cm"))),
        ("Scalar(x, Ns/m, damping) [legacy spelling]", lambda: (lambda s: (s.GetUnit(), s.GetCategory(), s.GetValue("kN.s/m")))(Scalar(x, "Ns/m", "damping"))),
        ("db.CheckCategoryUnit(damping, Ns/m) [legacy spelling]", lambda: db().CheckCategoryUnit("damping", "Ns/m")),
        ("Quantity(damping, Ns/m) / ObtainQuantity(Ns/m, damping, caption)", lambda: (Quantity("damping", "Ns/m").GetUnit(), ObtainQuantity("Ns/m", "damping", "cap").GetUnit(),
                                                                                    Quantity("damping", "Ns/m") == ObtainQuantity("N.s/m", "damping"))),
        # a unit whose declared default category may or may not be registered yet
        ("Scalar(x,in) category-less", lambda: (lambda s: (s.GetCategory(), s.IsValid(), list(s.GetValidUnits()), s.GetValue("m")))(Scalar(x, "in"))),
        ("ObtainQuantity(in) / GetDefaultCategory(in)", lambda: (ObtainQuantity("in").GetCategory(), db().GetDefaultCategory("in"))),
        ("Array([x],in).IsValid", lambda: (lambda a: (a.IsValid(), a.GetCategory()))(Array([x], "in"))),
    ]
    return Q


def registrations(V):
    lo, hi, d = V["lo"], V["hi"], V["d"]
    return [
        ("AddUnit(length,km)", lambda db: db.AddUnit("length", "kilometers", "km", lambda x: x / 1000.0, lambda x: x * 1000.0)),
        ("AddCategory(depth,override,min=lo,default=d)", lambda db: db.AddCategory("depth", "length", override=True, min_value=lo, default_value=d)),
        ("AddCategory(length,override,max=hi)", lambda db: db.AddCategory("length", "length", override=True, max_value=hi, default_value=d)),
        ("AddUnit(velocity,m) [rejected: duplicate symbol, new type]", lambda db: db.AddUnit("velocity", "meters?", "m", lambda x: x, lambda x: x)),
        ("AddCategory(c9,length,valid=[cm])", lambda db: db.AddCategory("c9", "length", valid_units=["cm"])),
        ("AddUnitBase(time2,tt)", lambda db: db.AddUnitBase("time2", "ticks", "tt")),
        ("AddCategory(depth,override,valid=[m])", lambda db: db.AddCategory("depth", "length", override=True, valid_units=["m"])),
        ("AddCategory(depth) [rejected: exists]", lambda db: db.AddCategory("depth", "length")),
        ("AddCategory(width,override -> time)", lambda db: db.AddCategory("width", "time", override=True)),
        ("AddUnit(length,in,default_category=pipe diameter)", lambda db: db.AddUnit("length", "inches", "in", lambda x: x * 39.37, lambda x: x / 39.37, default_category="pipe diameter")),
        ("AddCategory(pipe diameter,min=0)", lambda db: db.AddCategory("pipe diameter", "length", valid_units=["in", "cm"], min_value=0.0, default_unit="in")),
    ]




def items(tier, seed):
    rng = random.Random(seed)
    out = [{"qs": [q], "rs": [r]} for q in range(NQ) for r in range(NR) if tier != "quick" or (q + r) % 2 == 0]
    out += [{"qs": [q], "rs": [(q * 3) % NR], "two_db": True} for q in (0, 7, 20, 33)]
    if tier == "quick":
        # always in: the queries that mention something a registration introduces later (category c9, unit km, unit in / its default category), with that registration
        for q, r in ((6, 4), (7, 4), (6, 0), (7, 0), (12, 0), (19, 0), (20, 0), (21, 0), (24, 0), (35, 0), (43, 9), (44, 9), (45, 9), (43, 10), (44, 10), (45, 10), (15, 1), (22, 1), (14, 2), (16, 8), (17, 8)):
            if (q + r) % 2 == 1:
                out.append({"qs": [q], "rs": [r]})
    if tier != "quick":
        allq = [(a, b, r) for a in range(NQ) for b in range(NQ) for r in range(NR)]
        out += [{"qs": [a, b], "rs": [r]} for a, b, r in rng.sample(allq, 7000)]
        out += [{"qs": [rng.randrange(NQ)], "rs": [rng.randrange(NR), rng.randrange(NR)]} for _ in range(4000)]
    # two registrations in a row with the whole battery asked in between (a unit's default category registered before / after the unit)
    for pair in ((9, 10), (10, 9), (0, 1), (4, 6)):
        for q in (43, 44, 30, 8):
            out.append({"qs": [q], "rs": list(pair)})
    # two arithmetic queries in a row before the battery
    for a in range(30, 35):
        for b in range(30, 35):
            if a != b:
                out.append({"qs": [a, b], "rs": [5]})
    out.append({"qs": [0], "rs": [0], "canary": True})
    rng.shuffle(out)
    return out


def inputs(cfg):
    return {"x": "real", "y": "real", "lo": "real", "hi": "real", "d": "real"}


def _outcome(fn):
    from barril.units import UnitsError

    try:
        return ("ok", fn())
    except (core.Abort, core.HarnessError, core.Infeasible):
        raise
    except (UnitsError, ValueError, TypeError, AssertionError, KeyError, RuntimeError, IndexError, ZeroDivisionError) as e:
        return ("raised", type(e).__name__)


def _same(a, b):
    """z3 Bool: two outcomes are the same (terms compared as terms)"""
    if core.is_sym(a) or core.is_sym(b) or isinstance(a, float) or isinstance(b, float):
        try:
            return term(a) == term(b)
        except core.HarnessError:
            return z3.BoolVal(a is b)
    if isinstance(a, (list, tuple)) and isinstance(b, (list, tuple)):
        if len(a) != len(b) or type(a) is not type(b):
            return z3.BoolVal(False)
        return z3.And(*[_same(x, y) for x, y in zip(a, b)]) if a else z3.BoolVal(True)
    return z3.BoolVal(a == b)


def run(cfg, V):
    from barril.units import Quantity

    warm = _pre()
    fresh = _pre()
    Quantity._EMPTY_QUANTITY = None
    regs = registrations(V)
    log = {"pure": [], "battery": []}
    with pushed(warm):
        Q = queries(V)
        for qi in cfg["qs"]:
            s0 = snap_registry(warm)
            _outcome(Q[qi][1])
            log["pure"].append((Q[qi][0], snap_registry(warm) == s0))
    accepted = []
    for n, ri in enumerate(cfg["rs"]):
        name, reg = regs[ri]
        s0 = snap_registry(warm)
        o = _outcome(lambda: reg(warm))
        if o[0] == "ok":
            accepted.append(reg)
            of = _outcome(lambda: reg(fresh))
            log.setdefault("reg", []).append((name, "accepted", of[0] == "ok"))
        else:
            log.setdefault("reg", []).append((name, "rejected:" + o[1], snap_registry(warm) == s0))
        with pushed(warm):
            Qw = queries(V)
            ans_w = []
            for qn, qf in Qw:
                s1 = snap_registry(warm)
                ans_w.append(_outcome(qf))
                if snap_registry(warm) != s1:
                    log["pure"].append((qn + " (battery)", False))
        # the reference answer of every query comes from its OWN brand-new database (same registrations, no other history at all)
        ans_f = []
        for qi in range(len(Qw)):
            one = _pre()
            for r_ in accepted:
                r_(one)
            Quantity._EMPTY_QUANTITY = None
            with pushed(one):
                ans_f.append(_outcome(queries(V)[qi][1]))
        Quantity._EMPTY_QUANTITY = None
        log["battery"].append([(Qw[i][0], ans_w[i], ans_f[i]) for i in range(len(Qw))])
        log["registry_equal"] = snap_strip(snap_registry(warm)) == snap_strip(snap_registry(fresh))
    if not cfg.get("two_db"):
        return log

    # two databases, both completely built BEFORE any query, that disagree about a (category, unit) pair: what one answered must not reach the other
    def _other():
        d_ = _pre()
        d_.AddUnit("length", "kilometers", "km", lambda t: t / 1000.0, lambda t: t * 1000.0)
        return d_

    probes = [("CheckCategoryUnit(length, km)", lambda d_: d_.CheckCategoryUnit("length", "km")), ("Scalar(x, km, length)", lambda d_: Scalar(x_, "km", "length").GetValue("m"))]
    from barril.units import Scalar

    x_ = V["x"]
    two = []
    for first_has_km in (False, True):
        A, B = (_pre(), _other()) if not first_has_km else (_other(), _pre())
        for pn, pf in probes:
            with pushed(A):
                _outcome(lambda: pf(A))
            with pushed(B):
                got = _outcome(lambda: pf(B))
            # what the second database answers when used alone follows from its own registrations (it has / has not the unit km)
            want = (("ok", None) if pn.startswith("Check") else ("ok", x_ * 1000.0)) if not first_has_km else ("raised", "InvalidUnitError")
            two.append((pn, got, want))
    log["two_databases"] = two
    return log


def snap_strip(s):
    """registry snapshots of two databases hold different closure objects: compare everything but their identities"""
    units = {qt: tuple(u[:3] for u in us) for qt, us in s["units"].items()}
    return {"qts": s["qts"], "units": units, "cats": s["cats"]}


def props(cfg, T, obs):
    if isinstance(obs, Raised):
        return [("queries raise only documented errors", False)]
    P = [("the registry snapshot is identical around every read-only or failing query", all(ok for _n, ok in obs["pure"]))]
    for name, status, ok in obs.get("reg", []):
        if status == "accepted":
            P.append(("a registration accepted on the warm database is accepted on the fresh one", bool(ok)))
        else:
            P.append(("a rejected registration leaves the registry exactly as it was", bool(ok)))
    P.append(("warm and fresh databases report the same registry", bool(obs.get("registry_equal", True))))
    for pn, got, want in obs.get("two_databases", []):
        same = z3.BoolVal(got[0] == want[0]) if got[0] != "ok" or want[0] != "ok" else _same(got[1], want[1])
        P.append(("two databases that disagree about a (category, unit) pair: '%s' on the second answers as on a database used alone" % pn, z3.And(z3.BoolVal(got[0] == want[0] and (got[0] == "ok" or got[1] == want[1])), same) if got[0] == "ok" else z3.BoolVal(got == want)))
    for bi, bat in enumerate(obs["battery"]):
        cs, names = [], []
        for qn, w, f in bat:
            if w[0] != f[0]:
                cs.append(z3.BoolVal(False))
                names.append(qn)
            elif w[0] == "raised":
                cs.append(z3.BoolVal(w[1] == f[1]))
            else:
                cs.append(_same(w[1], f[1]))
        for (qn, _w, _f), c in zip(bat, cs):
            P.append(("battery %d: '%s' answers the same on the warm database as on a fresh one" % (bi, qn), c))
    if cfg.get("canary"):
        qn, w, f = [b for b in obs["battery"][0] if b[0] == "Scalar(x,m,depth).GetValue(cm)"][0]
        P.append(("canary:Scalar(x,m,depth).GetValue(cm) is x", w[0] == "ok" and _same(w[1], T["x"])))
    return P


def finding_key(cfg, name):
    return "after queries %s and registrations %s :: %s" % (cfg["qs"], cfg["rs"], name)
