"""C18 - fractional values keep their numeric meaning.
(a) FractionValue float/order/copy/eq and (b) barril Fraction arithmetic and comparison against exact rational
arithmetic: number part real, numerators/denominators symbolic integers (|.| <= 10^9), fractions.Fraction replaced
by the representation-agnostic SymFrac stub. (c) FractionScalar converts and validates like a Scalar holding
float(value): number symbolic, fractional part p/q enumerated (the real Fraction(float) normalisation runs
concretely). (d) str -> CreateFromString and CreateFromFloat go through C-level %g formatting, locale and regular
expressions and are OUTSIDE the solver's reach: an auxiliary concrete grid is evaluated and labelled as such."""
import copy
import itertools
import random

import z3

from symx import core
from symx.check import Raised
from symx.core import approx, term, zabs
from symx.frac import SymFrac

from .common import fresh_posc_db, get_db, oracle_convert, pushed, seeded_sample

PID = "C18"
FUNCTIONS = ["FractionValue.__float__/__lt__/__le__/__gt__/__ge__/__eq__/__ne__/__copy__", "barril Fraction.__init__/__add__/__radd__/__sub__/__rsub__/__neg__/__mul__/__rmul__/"
             "__truediv__/__rtruediv__/__mod__/__abs__/inv/reduce/copy/__old_cmp__/__eq__/__lt__/__float__ (+ total_ordering)", "FractionScalar.ConvertFractionValue/GetValue/"
             "CheckValidity/IsValid", "registered FractionValue conversion (UnitDatabase.Convert on a FractionValue)",
             "auxiliary, concrete: FractionValue.__str__/CreateFromString/CreateFromFloat"]
FV_OPS = ["float", "lt", "le", "gt", "ge", "eq", "copy", "edit_then_float"]
FR_OPS = ["add", "sub", "mul", "div", "mod", "neg", "abs", "inv", "lt", "le", "gt", "ge", "eq", "radd_int", "rsub_int", "rmul_int", "rdiv_int", "float", "copy", "add_int"]
QS = [2, 3, 4, 5, 8, 10, 16, 32, 64]
BOUNDS = {
    "quick": "(a),(b): number parts all reals, numerators/denominators all integers with |.| <= 10^9 (denominators != 0), every operator; (c): number all reals, fractional "
             "part p/q with q in %s and 0 <= p < q (seeded 3 per unit pair), unit pairs: every affine unit <-> base plus 150 seeded pairs, validity with symbolic limits; "
             "(d) auxiliary concrete grid of 294 format/parse, 150 CreateFromFloat and 216 Fraction-with-float-operand cases (NOT solver-decided)" % QS,
    "thorough": "same with 8000 seeded unit pairs in (c) and every p/q",
}
ASSUMPTIONS = ["fractions.Fraction stands in as SymFrac: value term + fresh integer numerator/denominator with D>0 and N = value*D (integrality of the reduced form dropped), so a "
               "proof covers every representation", "A-FP for the number part", "(c): conversions of the fractional part pass through Fraction(float), which snaps numerators with "
               "absolute tolerance SMALL=1e-8 by design; equality is claimed up to 1e-8 + 1e-12*|converted fraction|", "format/parse and CreateFromFloat sub-clauses are not decided "
               "by the solver (C-level %g, locale.atof, re, str(float)); the auxiliary grid only samples them"]
CHUNK = 6
MAX_PATHS = 400
EXPLORE_BUDGET_S = 12  # (exploring the paths of one configuration takes milliseconds here; the obligations are what can be slow)
ITEM_BUDGET_S = 150  # (a configuration of this harness normally takes well under a second; z3 occasionally needs several attempts on the non-linear ones)
LIM = 10**9


def std_fraction(cfg):
    return SymFrac if cfg["k"] in ("fv", "frac") else None


def items(tier, seed):
    rng = random.Random(seed)
    out = [{"k": "fv", "op": op} for op in FV_OPS] + [{"k": "frac", "op": op} for op in FR_OPS]
    db = get_db("default")
    pairs = []
    allp = []
    for qt in db.GetQuantityTypes():
        if qt not in db.categories_to_quantity_types:
            continue
        us = db.GetUnits(qt)
        allp += [(qt, u, v) for u in us for v in us if u != v]
        for u in us[1:]:
            f = db.GetInfo(qt, u).tobase
            if getattr(f, "__a__", 0.0) != 0.0:
                pairs += [(qt, u, us[0]), (qt, us[0], u)]
    pairs += [("length", "in", "m"), ("length", "in", "ft"), ("length", "m", "in"), ("temperature", "degC", "degF")]
    pairs += seeded_sample(allp, 150 if tier == "quick" else 8000, seed)
    for qt, u, v in pairs:
        pq = [(p, q) for q in QS for p in range(0, q)]
        for p, q in (rng.sample(pq, 3) if tier == "quick" else rng.sample(pq, 12)):
            out.append({"k": "fs", "qt": qt, "u": u, "v": v, "p": p, "q": q})
    for p, q in ((1, 2), (3, 4), (0, 1), (5, 8)):
        for u, du in (("in", "m"), ("m", "m"), ("degC", "K")):
            out.append({"k": "fs_valid", "u": u, "du": du, "p": p, "q": q})
    # two FractionScalars in ONE unit (no conversion): all four order operators against Scalars holding float(value), equal amounts split differently included
    for (p, q), (p2, q2) in (((1, 2), (0, 1)), ((3, 4), (0, 1)), ((1, 4), (5, 4)), ((1, 2), (1, 2)), ((0, 1), (0, 1)), ((7, 8), (3, 8)), ((1, 2), (2, 4))):
        for u in ("m", "in"):
            out.append({"k": "fs_cmp", "u": u, "p": p, "q": q, "p2": p2, "q2": q2})
    out.append({"k": "aux"})
    out.append({"k": "fv", "op": "float", "canary": True})
    rng.shuffle(out)
    return out


def inputs(cfg):
    if cfg["k"] == "fv":
        return {"n1": "real", "n2": "real", "p1": "int", "q1": "int", "p2": "int", "q2": "int"}
    if cfg["k"] == "frac":
        return {"a": "int", "b": "int", "c": "int", "d": "int", "k": "int"}
    return {"n": "real", "lo": "real"}


def precondition(cfg, T):
    cs = []
    for n in ("p1", "q1", "p2", "q2", "a", "b", "c", "d", "k"):
        if n in T:
            cs += [T[n] >= -LIM, T[n] <= LIM]
    for n in ("q1", "q2", "b", "d"):
        if n in T:
            cs.append(T[n] != 0)
    return z3.And(*cs) if cs else z3.BoolVal(True)


def _fval(fr):
    """exact value term of a barril Fraction (through the stand-in, or concretely on replay)"""
    x = fr.x
    if isinstance(x, SymFrac):
        return x.val
    return core.rv(x)


def run(cfg, V):
    from barril.basic.fraction import Fraction, FractionValue
    from barril.units import FractionScalar, Scalar

    k = cfg["k"]
    if k == "fv":
        f1 = FractionValue(V["n1"], (V["p1"], V["q1"]))
        f2 = FractionValue(V["n2"], Fraction(V["p2"], V["q2"]))
        op = cfg["op"]
        if op == "float":
            return {"r": float(f1) if not core.is_sym(V["n1"]) else f1.__float__()}
        if op == "edit_then_float":
            # the documented in-place edits of the parts must be seen by a later float() / comparison (no stale memo)
            first = f1.__float__()
            den = f1.fraction.denominator  # the denominator of the representation the Fraction currently holds (sign-normalised, possibly reduced)
            f1.fraction.numerator = V["p2"]
            second = f1.__float__()
            f1.number = V["n2"]
            third = f1.__float__()
            return {"first": first, "second": second, "third": third, "lt": f1 < f2, "den": den}
        if op == "copy":
            c = copy.copy(f1)
            return {"eq": c == f1 and not (c != f1), "r": c.__float__(), "same_obj": c is f1 or c.GetFraction() is f1.GetFraction()}
        return {"b": {"lt": lambda: f1 < f2, "le": lambda: f1 <= f2, "gt": lambda: f1 > f2, "ge": lambda: f1 >= f2, "eq": lambda: (f1 == f2, f1 != f2, f2 == f1)}[op]()}
    if k == "frac":
        x, y = Fraction(V["a"], V["b"]), Fraction(V["c"], V["d"])
        kk = V["k"]
        op = cfg["op"]
        if op in ("lt", "le", "gt", "ge", "eq"):
            return {"b": {"lt": lambda: x < y, "le": lambda: x <= y, "gt": lambda: x > y, "ge": lambda: x >= y, "eq": lambda: (x == y, x != y)}[op]()}
        r = {"add": lambda: x + y, "sub": lambda: x - y, "mul": lambda: x * y, "div": lambda: x / y, "mod": lambda: x % y, "neg": lambda: -x, "abs": lambda: abs(x),
             "inv": lambda: x.inv(), "radd_int": lambda: kk + x, "rsub_int": lambda: kk - x, "rmul_int": lambda: kk * x, "rdiv_int": lambda: kk / x, "copy": lambda: x.copy(),
             "add_int": lambda: x + kk, "float": lambda: x}[op]()
        o = {"r": _fval(r), "is_fraction": type(r).__name__ == "Fraction"}
        if op == "float":
            o["fl"] = r.__float__()
        return o
    if k == "fs":
        fs = FractionScalar(FractionValue(V["n"], (cfg["p"], cfg["q"])), cfg["u"], cfg["qt"])
        g = fs.GetValue(cfg["v"])
        from barril.units import UnitDatabase

        via_db = UnitDatabase.GetSingleton().Convert(cfg["qt"], cfg["u"], cfg["v"], FractionValue(V["n"], (cfg["p"], cfg["q"])))
        return {"r": g.__float__(), "number": g.GetNumber(), "unit_kept": fs.GetUnit() == get_db("default").GetInfo(cfg["qt"], cfg["u"]).unit, "via_db": via_db.__float__(),
                "src_untouched": float(fs.GetValue().GetFraction()) == cfg["p"] / cfg["q"]}
    if k == "fs_cmp":
        a = FractionScalar(FractionValue(V["n"], (cfg["p"], cfg["q"])), cfg["u"])
        b = FractionScalar(FractionValue(V["lo"], (cfg["p2"], cfg["q2"])), cfg["u"])
        sa, sb = Scalar(V["n"] + cfg["p"] / cfg["q"], cfg["u"]), Scalar(V["lo"] + cfg["p2"] / cfg["q2"], cfg["u"])
        return {"fs": (a < b, a <= b, a > b, a >= b, b < a, b <= a, b > a, b >= a), "s": (sa < sb, sa <= sb, sa > sb, sa >= sb, sb < sa, sb <= sa, sb > sa, sb >= sa)}
    if k == "fs_valid":
        db = fresh_posc_db()
        with pushed(db):
            qt = "length" if cfg["u"] != "degC" else "temperature"
            db.AddCategory("c18", qt, default_unit=cfg["du"], min_value=V["lo"], default_value=V["lo"])
            fs = FractionScalar(FractionValue(V["n"], (cfg["p"], cfg["q"])), cfg["u"], "c18")
            s = Scalar(V["n"] + cfg["p"] / cfg["q"], cfg["u"], "c18")
            return {"fs_valid": fs.IsValid(), "s_valid": s.IsValid()}
    # auxiliary concrete grid
    bad = []
    for n in (-3, -1, 0, 2, 7.5, -0.25, 1234.5):
        for p in range(0, 6):
            for q in (2, 3, 4, 8, 16, 64, 10):
                fv = FractionValue(n, (p, q))
                try:
                    back = FractionValue.CreateFromString(str(fv), consider_locale=False)
                    if float(back) != float(fv) or not (back == fv):
                        bad.append(("format/parse", n, p, q, str(fv), str(back)))
                except Exception as e:  # noqa
                    bad.append(("format/parse", n, p, q, type(e).__name__))
    for text, want in (("5 3/4", 5.75), ("2 1/2", 2.5), ("3/8", 0.375), ("7", 7.0)):
        first = FractionValue.CreateFromString(text, consider_locale=False)
        first.SetNumber(first.GetNumber() + 1)  # the caller edits the value it got ...
        first.fraction.numerator = 1
        again = FractionValue.CreateFromString(text, consider_locale=False)  # ... which must not change what the same text parses to
        if float(again) != want or again is first:
            bad.append(("parse-edit-parse", text, float(again)))
    vals = [j / 8 for j in range(-40, 41)] + [j / 10 for j in range(-30, 31)] + [0.375, 1.3125, 2.0625, 100.5, 0.001, 123.456, 0.333, 0.47]
    for v in vals:
        try:
            fv = FractionValue.CreateFromFloat(v)
            if abs(float(fv) - v) > 1e-9:
                bad.append(("CreateFromFloat", v, str(fv)))
        except Exception as e:  # noqa
            bad.append(("CreateFromFloat", v, type(e).__name__))
    # number parts next to an integer or next to zero keep their amount under float() and under the order operators
    for n_ in (5e-9, 3.000000004, -2e-9, 1e-12, 6.9999999995, 2e-8):
        for (p_, q_) in ((0, 1), (1, 2), (3, 4)):
            fv_ = FractionValue(n_, (p_, q_))
            if abs(float(fv_) - (n_ + p_ / q_)) > 1e-15 * max(1.0, abs(n_ + p_ / q_)):
                bad.append(("float-near-integer", n_, p_, q_, float(fv_)))
    if not (FractionValue(5e-9) > FractionValue(3e-9)) or FractionValue(5e-9) == FractionValue(3e-9) or not (FractionScalar(5e-9, "m") > FractionScalar(3e-9, "m")):
        bad.append(("tiny-amounts-compare-equal",))
    # integer powers of a Fraction against exact rational arithmetic (negative bases and negative exponents included)
    import fractions as _fr

    for p in (-5, -2, -1, 1, 2, 3, 7):
        for q in (1, 2, 3, 7):
            for e in range(-4, 5):
                try:
                    got = Fraction(p, q) ** e
                    want = _fr.Fraction(p, q) ** e
                    if _fr.Fraction(got.x if hasattr(got, "x") else got) != want:
                        bad.append(("fraction-pow", p, q, e, str(got), str(want)))
                except Exception as ex:  # noqa
                    bad.append(("fraction-pow", p, q, e, type(ex).__name__))
    # history: a value built WITHOUT a fraction is edited in place; values built without a fraction afterwards are untouched by that
    v0 = FractionValue(3)
    v0.fraction.numerator = 1
    v0.fraction.denominator = 2
    for mk_, want in ((lambda: FractionValue(7), 7.0), (lambda: FractionValue(0.5), 0.5), (lambda: FractionValue.CreateFromFloat(4.0), 4.0), (lambda: FractionScalar(2.0, "in").GetValue(), 2.0)):
        got = mk_()
        if float(got) != want:
            bad.append(("default-fraction-shared", want, float(got)))
    # a plain float operand is read as the short decimal it prints as (0.1 -> 1/10) by EVERY operator alike
    import fractions
    import operator

    for f in (0.1, 0.2, 0.3, 1.1, 12.35, 0.5, -0.7, 2.0, 3):
        exact_f = fractions.Fraction(repr(f))
        for (p, q) in ((1, 3), (1, 2), (-5, 7)):
            for name, fn in (("add", operator.add), ("sub", operator.sub), ("mul", operator.mul), ("truediv", operator.truediv)):
                for order in (0, 1):
                    try:
                        got = fn(Fraction(p, q), f) if order == 0 else fn(f, Fraction(p, q))
                        want = fn(fractions.Fraction(p, q), exact_f) if order == 0 else fn(exact_f, fractions.Fraction(p, q))
                        gx = got.x if hasattr(got, "x") else got
                        if fractions.Fraction(gx) != want or not (got == Fraction(want.numerator, want.denominator)):
                            bad.append(("fraction-op-float", name, order, p, q, f, str(got), str(want)))
                    except Exception as e:  # noqa
                        bad.append(("fraction-op-float", name, order, p, q, f, type(e).__name__))
            for name, fn in (("lt", operator.lt), ("le", operator.le), ("eq", operator.eq), ("gt", operator.gt)):
                if fn(Fraction(p, q), f) != fn(fractions.Fraction(p, q), exact_f):
                    bad.append(("fraction-cmp-float", name, p, q, f))
    return {"aux_bad": bad}


def props(cfg, T, obs):
    k = cfg["k"]
    if isinstance(obs, Raised):
        if obs.isa(ZeroDivisionError) and k == "frac" and cfg["op"] in ("div", "mod", "inv", "rdiv_int"):
            return []  # division by a zero fraction
        return [("fraction operations do not raise (non-zero divisors)", False)]
    R = z3.ToReal
    if k == "fv":
        a1 = T["n1"] + R(T["p1"]) / R(T["q1"])
        a2 = T["n2"] + R(T["p2"]) / R(T["q2"])
        op = cfg["op"]
        if op == "float":
            P = [("float(FractionValue(n,(p,q))) = n + p/q", approx(obs["r"], a1))]
            if cfg.get("canary"):
                P.append(("canary:float(FractionValue) is the number part", approx(obs["r"], T["n1"])))
            return P
        if op == "edit_then_float":
            return [("float() follows in-place edits of the fraction and of the number part",
                     z3.And(approx(obs["first"], a1), approx(obs["second"], T["n1"] + R(T["p2"]) / term(obs["den"])), approx(obs["third"], T["n2"] + R(T["p2"]) / term(obs["den"])))),
                    ("comparison after the edits uses the edited amount", z3.BoolVal(bool(obs["lt"])) == (T["n2"] + R(T["p2"]) / term(obs["den"]) < a2))]
        if op == "copy":
            return [("copy equals the original, denotes the same amount, shares no mutable part", z3.And(z3.BoolVal(bool(obs["eq"]) and not obs["same_obj"]), approx(obs["r"], a1)))]
        if op == "eq":
            e, ne, e2 = obs["b"]
            want = z3.And(T["n1"] == T["n2"], R(T["p1"]) / R(T["q1"]) == R(T["p2"]) / R(T["q2"]))
            return [("== is 'same number and same fraction', symmetric, != its negation", z3.And(z3.BoolVal(bool(e)) == want, z3.BoolVal(bool(e) == bool(e2) and bool(ne) == (not bool(e))))),
                    ("equal FractionValues denote equal amounts", z3.Implies(z3.BoolVal(bool(e)), a1 == a2))]
        want = {"lt": a1 < a2, "le": a1 <= a2, "gt": a1 > a2, "ge": a1 >= a2}[op]
        return [("%s agrees with the order of the amounts" % op, z3.BoolVal(bool(obs["b"])) == want)]
    if k == "frac":
        x, y, kk = R(T["a"]) / R(T["b"]), R(T["c"]) / R(T["d"]), R(T["k"])
        op = cfg["op"]
        if op in ("lt", "le", "gt", "ge"):
            return [("%s agrees with exact rational order" % op, z3.BoolVal(bool(obs["b"])) == {"lt": x < y, "le": x <= y, "gt": x > y, "ge": x >= y}[op])]
        if op == "eq":
            return [("== agrees with exact rational equality, != is its negation", z3.And(z3.BoolVal(bool(obs["b"][0])) == (x == y), z3.BoolVal(bool(obs["b"][1]) == (not bool(obs["b"][0])))))]
        want = {"add": x + y, "sub": x - y, "mul": x * y, "div": x / y, "mod": x - y * R(z3.ToInt(x / y)), "neg": -x, "abs": zabs(x), "inv": 1 / x, "radd_int": kk + x,
                "rsub_int": kk - x, "rmul_int": kk * x, "rdiv_int": kk / x, "copy": x, "add_int": x + kk, "float": x}[op]
        P = [("the result is the exact rational result", z3.And(obs["r"] == want, z3.BoolVal(bool(obs["is_fraction"]))))]
        if op == "float":
            P.append(("float(Fraction) is its value", term(obs["fl"]) == x))
        return P
    if k == "fs":
        db = get_db("default")
        n = T["n"]
        frac = core.rv(__import__("fractions").Fraction(cfg["p"], cfg["q"]))
        want = oracle_convert(db, cfg["qt"], cfg["u"], cfg["v"], n + frac)
        frac_conv = want - oracle_convert(db, cfg["qt"], cfg["u"], cfg["v"], n)
        tol = z3.RealVal("1/100000000") + z3.RealVal("1/1000000000000") * (zabs(frac_conv) + zabs(want))
        return [("float(FractionScalar.GetValue(v)) = Convert(u, v, float(value)) up to the Fraction.SMALL normalisation", zabs(term(obs["r"]) - want) <= tol),
                ("the registered FractionValue conversion of UnitDatabase.Convert agrees", zabs(term(obs["via_db"]) - want) <= tol),
                ("the number part alone is converted exactly", approx(obs["number"], oracle_convert(db, cfg["qt"], cfg["u"], cfg["v"], n))),
                ("the source keeps its unit and its fraction", bool(obs["unit_kept"]) and bool(obs["src_untouched"]))]
    if k == "fs_cmp":
        return [("two FractionScalars of one unit compare (<, <=, >, >=, both orders) exactly like Scalars holding float(value)", obs["fs"] == obs["s"])]
    if k == "fs_valid":
        return [("a FractionScalar validates exactly like a Scalar holding float(value)", bool(obs["fs_valid"]) == bool(obs["s_valid"]))]
    return [("auxiliary concrete grid: format->parse, CreateFromFloat, float operands and integer powers of Fraction, default-constructed values preserve the amount (not solver-decided)", obs["aux_bad"] == [])]


def finding_key(cfg, name):
    if cfg["k"] == "fs":
        return "FractionScalar %s[%s->%s] %d/%d :: %s" % (cfg["qt"], cfg["u"], cfg["v"], cfg["p"], cfg["q"], name)
    return "%s %s :: %s" % (cfg["k"], cfg.get("op", ""), name)
