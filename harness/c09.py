"""C09 - plain numbers act as dimensionless operands and never strip the unit.
Symbolic: the amounts and the python-float k. numpy scalar k's are C objects and cannot be symbolic:
they are taken from a small concrete set (then the amounts are concrete too) - stated as enumeration."""
import random

import z3

from symx import core
from symx.check import Raised
from symx.core import approx, term
from symx.shims import SymArray

from .common import qmap

PID = "C09"
FUNCTIONS = ["Scalar._DoOperation number branches / __r*__ operators", "Array._DoOperation number and ndarray branches / __r*__ operators", "_ValueGenerator",
             "barril._util.types_.IsNumber", "Quantity.CreateEmpty", "UnitDatabase.Divide/FloorDivide with the empty quantity", "Array.__array_ufunc__ = None"]
XS = ["a_np_cm_two_cats", "a_np_int", "f_np_int", "s_unknown_cap", "a_unknown_cap", "f_unknown_cap_np", "s_restricted", "a_restricted", "s_m", "s_degC", "s_m2", "s_per_s", "a_list", "a_tuple", "a_np", "a_np_m2", "f_list", "f_np"]
OPS = ["k*x", "x*k", "x/k", "x//k", "x+k", "k+x", "x-k", "k-x", "k/x", "k//x"]
KS = ["py_frac", "float_edge", "sym", "int", "np.float64", "np.float32", "np.int64", "np.uint8", "np.uint64", "np.int16", "ndarray", "ndarray0d", "sym_ndarray", "list"]
BOUNDS = {
    "quick": "values and python-float k: all reals; x in %s; all ten operators in both operand orders; k kinds: symbolic python float, python int 3 and -2, "
             "numpy.float64/float32/int64 scalars and float64 ndarrays from a concrete set (with concrete amounts), symbolic object-ndarray; containers of length 0 and 2" % XS,
    "thorough": "same with container lengths 0..3 and every (x, k kind, operator) combination",
}
BOUNDS_ALSO = '; also: x with a captioned unknown quantity (Scalar, Array, FixedArray), integer-dtype numpy storage (concrete amounts), k kinds numpy uint8/uint64/int16, 0-d ndarray, python 0.25'
BOUNDS = {k_: v_ + BOUNDS_ALSO for k_, v_ in BOUNDS.items()}
ASSUMPTIONS = ["A-FP", "A-NP", "numpy scalars/float64 ndarrays as k are concrete (enumerated), the solver quantifies over the amounts and python-float k only",
               "ndarray k is claimed for Array/FixedArray x (the reflected Array operators support it); Scalar with ndarray k is not part of the claim"]
CHUNK = 20


def items(tier, seed):
    rng = random.Random(seed)
    out = []
    for x in XS:
        for op in OPS:
            for k in KS:
                if k in ("ndarray", "ndarray0d", "sym_ndarray", "list") and x.startswith("s_"):
                    continue
                if k == "list":
                    continue  # a python list is not a number/ndarray operand
                if x == "a_np_cm_two_cats" and k not in ("py_frac", "int", "np.float64"):
                    continue  # exactness in IEEE arithmetic: concrete amounts, concrete k
                if x in ("a_np_int", "f_np_int") and k not in ("np.float64", "int", "np.int64", "ndarray", "ndarray0d", "py_frac"):
                    continue  # integer-dtype storage: concrete amounts, concrete k
                if k == "py_frac" and x not in ("a_np_int", "f_np_int", "a_list", "s_m"):
                    continue
                if k == "float_edge" and (op not in ("x//k", "k//x", "x/k", "k/x") or x in ("s_m2", "s_per_s", "a_np_m2")):
                    continue
                ns = [0, 2] if tier == "quick" else [0, 1, 2, 3]
                for n in (ns if not x.startswith("s_") else [1]):
                    if (x.startswith("f_") and n < 2) or (n == 0 and (x in ("a_np_m2", "a_np_cm_two_cats") or k in ("ndarray", "sym_ndarray"))):
                        continue
                    if k in ("np.uint8", "np.uint64", "np.int16") and x in ("s_m2", "s_per_s", "a_np_m2", "s_restricted", "a_restricted"):
                        continue
                    out.append({"x": x, "op": op, "k": k, "n": n})
    out.append({"x": "s_m", "op": "k*x", "k": "sym", "n": 1, "canary": True})
    rng.shuffle(out)
    return out


def inputs(cfg):
    return {"x%d" % i: "real" for i in range(3)} | {"k": "real", "k1": "real", "k2": "real"}


CONCRETE = {"x0": 1.5, "x1": -2.25, "x2": 4.0}


def _mk(cfg, V):
    import numpy
    from barril.units import Array, FixedArray, Scalar

    name, n = cfg["x"], cfg["n"]
    conc = name in ("a_np_int", "f_np_int", "a_np_cm_two_cats") or cfg["k"] in ("py_frac", "np.float64", "np.float32", "np.int64", "np.uint8", "np.uint64", "np.int16", "ndarray", "ndarray0d", "float_edge")
    CONC = {"x0": 1.0, "x1": 6.0, "x2": 0.3} if cfg["k"] == "float_edge" else CONCRETE
    xs = [CONC["x%d" % i] if conc else V["x%d" % i] for i in range(3)][:(n if name.startswith("a_") else max(n, 1))]

    def arr(v):
        return SymArray(v) if (v and core.is_sym(v[0])) else numpy.array(v, dtype=float)

    if name in ("s_restricted", "a_restricted"):
        cat, unit = _restricted()
        return (Scalar(xs[0], unit, cat), xs[:1]) if name.startswith("s_") else (Array(list(xs), unit, cat), xs)
    if name == "a_np_cm_two_cats":
        # one quantity type twice in the SAME non-base unit under two categories, numpy storage, amounts that do not survive v/100*100
        vals = [7.0, 0.07, 0.3][:len(xs)]
        a_ = Array(numpy.array(vals), "cm", "length") * Array(numpy.array([1.0] * len(vals)), "cm", "depth")
        return a_, vals
    if name in ("a_np_int", "f_np_int"):
        ints = [1, 6, 3][:len(xs)]
        return (Array(numpy.array(ints), "m") if name.startswith("a_") else FixedArray(len(ints), numpy.array(ints), "m")), [float(i) for i in ints]
    if name.endswith("unknown_cap") or name == "f_unknown_cap_np":
        from barril.units import GetUnknownQuantity

        q = GetUnknownQuantity("Feet")
        if name.startswith("s_"):
            return Scalar(q, xs[0]), xs[:1]
        if name.startswith("f_"):
            return FixedArray(len(xs), q, arr(xs)), xs
        return Array(q, list(xs)), xs
    if name == "s_m":
        return Scalar(xs[0], "m"), xs[:1]
    if name == "s_degC":
        return Scalar(xs[0], "degC"), xs[:1]
    if name == "s_m2":
        return Scalar(xs[0], "m") * Scalar(1.0, "m"), xs[:1]
    if name == "s_per_s":
        return Scalar(xs[0], "m") / Scalar(1.0, "s"), xs[:1]
    if name == "a_list":
        return Array(list(xs), "m"), xs
    if name == "a_tuple":
        return Array(tuple(xs), "cm", "depth"), xs
    if name == "a_np":
        return Array(arr(xs), "m"), xs
    if name == "a_np_m2":
        return Array(arr(xs), "m") * Array(arr([1.0] * len(xs)) if not core.is_sym(xs[0]) else SymArray([1.0] * len(xs)), "m"), xs
    if name == "f_list":
        return FixedArray(len(xs), list(xs), "m"), xs
    if name == "f_np":
        return FixedArray(len(xs), arr(xs), "m"), xs
    raise KeyError(name)


_RESTRICTED = []


def _restricted():
    """(category, unit): a unit of the category's quantity type that is NOT in the category's own (UI) valid-unit list"""
    if not _RESTRICTED:
        from barril.units import UnitDatabase

        db = UnitDatabase.GetSingleton()
        for c in sorted(db.IterCategories()):
            i = db.GetCategoryInfo(c)
            if i.valid_units:
                extra = [u for u in db.GetUnits(i.quantity_type) if u not in i.valid_units]
                if extra and getattr(db.GetInfo(i.quantity_type, extra[0]).tobase, "__a__", 0.0) == 0.0:
                    _RESTRICTED.append((c, extra[0]))
                    break
    return _RESTRICTED[0]


def _sibling_prelude(x):
    """history: the same kinds of operations on an object with the same unit under ANOTHER category of the quantity type"""
    from barril.units import UnitDatabase

    q = x.GetQuantity()
    if q.IsDerived() or not q.GetCategory():
        return
    db = UnitDatabase.GetSingleton()
    for c in sorted(db.IterCategories()):
        if c != q.GetCategory() and db.GetCategoryQuantityType(c) == q.GetQuantityType():
            try:
                sib = x.CreateCopy(unit=q.GetUnit(), category=c)
                2.0 / sib, sib * 2.0, 2.0 // sib if False else None
            except ZeroDivisionError:
                pass
            return


def _k(cfg, V, n):
    import numpy

    k = cfg["k"]
    if k == "float_edge":
        return 0.1, [0.1] * n  # 1.0 // 0.1 == 9.0 in floats although 1.0 / 0.1 == 10.0
    if k == "sym":
        return V["k"], [V["k"]] * n
    if k == "int":
        return 3, [3] * n
    if k == "np.float64":
        return numpy.float64(2.5), [2.5] * n
    if k == "np.float32":
        return numpy.float32(1.5), [1.5] * n
    if k == "np.int64":
        return numpy.int64(-4), [-4] * n
    if k == "py_frac":
        return 0.25, [0.25] * n
    if k == "np.uint8":
        return numpy.uint8(3), [3] * n
    if k == "np.uint64":
        return numpy.uint64(5), [5] * n
    if k == "np.int16":
        return numpy.int16(-2), [-2] * n
    if k == "ndarray0d":
        return numpy.array(2.0), [2.0] * n
    if k == "ndarray":
        vals = [2.0, -0.5, 8.0][:n]
        return numpy.array(vals, dtype=float), vals
    if k == "sym_ndarray":
        vals = [V["k"], V["k1"], V["k2"]][:n]
        return (SymArray(vals) if core.is_sym(vals[0]) else numpy.array(vals, dtype=float)), vals
    raise KeyError(k)


def run(cfg, V):
    import numpy

    x, xs = _mk(cfg, V)
    if cfg["n"] != 0 and cfg["k"] in ("sym", "int"):
        _sibling_prelude(x)
    k, ks = _k(cfg, V, len(xs))
    op = cfg["op"]
    r = {"k*x": lambda: k * x, "x*k": lambda: x * k, "x/k": lambda: x / k, "x//k": lambda: x // k, "x+k": lambda: x + k, "k+x": lambda: k + x,
         "x-k": lambda: x - k, "k-x": lambda: k - x, "k/x": lambda: k / x, "k//x": lambda: k // x}[op]()
    is_barril = hasattr(r, "GetQuantity")
    out = {"cls": type(r).__name__, "xcls": type(x).__name__, "is_barril": is_barril, "xs": list(xs), "ks": list(ks), "xq": qmap(x)}
    if is_barril:
        v = r.GetAbstractValue()
        out["vals"] = list(v) if isinstance(v, (list, tuple, numpy.ndarray)) else [v]
        xv = x.GetAbstractValue()
        kind = lambda c: "ndarray" if isinstance(c, numpy.ndarray) else type(c).__name__  # noqa: E731
        out["cont"] = (kind(v), kind(xv)) if isinstance(xv, (list, tuple, numpy.ndarray)) else None
        out["rq"] = qmap(r)
        out["same_q"] = r.GetQuantity() == x.GetQuantity()
        out["unit"] = (r.GetUnit(), x.GetUnit())
    return out


def props(cfg, T, obs):
    op = cfg["op"]
    if isinstance(obs, Raised):
        if obs.isa(ZeroDivisionError):
            return []
        return [("an operation with a plain number does not raise (non-zero divisors)", False)]
    P = [("the result is a barril object carrying a unit, of the class of x", bool(obs["is_barril"]) and obs["cls"] == obs["xcls"])]
    if not obs["is_barril"]:
        return P
    xs = [term(v) for v in obs["xs"]]
    ks = [term(v) for v in obs["ks"]]
    if op in ("k/x", "k//x"):
        want_q = [(c, u, -e) for c, u, e in obs["xq"]]
        P.append(("k/x has the reciprocal dimension", obs["rq"] == want_q))
    else:
        P.append(("the result keeps x's quantity", bool(obs["same_q"]) and obs["unit"][0] == obs["unit"][1]))
    P.append(("one result element per element of x", len(obs["vals"]) == len(xs)))
    if obs.get("cont") and cfg["k"] not in ("ndarray", "ndarray0d", "sym_ndarray"):
        P.append(("with a plain number on either side the result keeps the container kind of x (list, tuple, ndarray)", obs["cont"][0] == obs["cont"][1]))
    if cfg["x"] == "a_np_cm_two_cats":
        f = {"k*x": lambda a, b: b * a, "x*k": lambda a, b: a * b, "x/k": lambda a, b: a / b, "x//k": lambda a, b: a // b, "x+k": lambda a, b: a + b, "k+x": lambda a, b: b + a,
             "x-k": lambda a, b: a - b, "k-x": lambda a, b: b - a, "k/x": lambda a, b: b / a, "k//x": lambda a, b: b // a}[op]
        want = [f(float(a), float(b)) for a, b in zip(obs["xs"], obs["ks"])]
        P.append(("auxiliary, concrete (not solver-decided): with the unit already matching, the amounts are combined EXACTLY as Python's float operator does (no detour through another unit)",
                  [float(v) for v in obs["vals"]] == want))
        return P
    if cfg["k"] == "float_edge":
        import operator

        f = {"x//k": lambda a, b: a // b, "k//x": lambda a, b: b // a, "x/k": lambda a, b: a / b, "k/x": lambda a, b: b / a}[op]
        want = [f(float(a), float(b)) for a, b in zip(obs["xs"], obs["ks"])]
        P.append(("auxiliary, concrete (not solver-decided): float edge cases equal Python's own float operator", [float(v) for v in obs["vals"]] == want))
        return P
    if len(obs["vals"]) == len(xs):
        cs = []
        approx = _approx32 if cfg["k"] == "np.float32" else core.approx  # numpy computes float32 <op> python float in single precision (NEP 50)
        for r, x, k in zip(obs["vals"], xs, ks):
            r = term(r)
            if op in ("k*x", "x*k"):
                cs.append(approx(r, x * k))
            elif op == "x/k":
                cs.append(approx(r, x / k))
            elif op == "k/x":
                cs.append(approx(r, k / x))
            elif op in ("x+k", "k+x"):
                cs.append(approx(r, x + k))
            elif op == "x-k":
                cs.append(approx(r, x - k))
            elif op == "k-x":
                cs.append(approx(r, k - x))
            elif op == "x//k":
                cs.append(r == z3.ToReal(z3.ToInt(x / k)))
            elif op == "k//x":
                cs.append(r == z3.ToReal(z3.ToInt(k / x)))
        P.append(("the value(s) are the operator applied to the value(s) of x and k", z3.And(*cs)))
    if cfg.get("canary"):
        P.append(("canary:k*x has the value of x", approx(obs["vals"][0], xs[0])))
    return P


def _approx32(a, b, scale=1):
    a, b = term(a), term(b)
    return core.zabs(a - b) <= z3.RealVal("1/1000000") * (core.zabs(a) + core.zabs(b) + 1)


def finding_key(cfg, name):
    return "%s with x=%s k=%s n=%d :: %s" % (cfg["op"], cfg["x"], cfg["k"], cfg["n"], name)
