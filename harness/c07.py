"""C07 - quantities are immutable values with sound equality, hash and copying.
A program obtains quantities through the documented creation forms, performs operations with symbolic
amounts (so every value-dependent path of each step is explored) and after every step re-checks the
observable snapshot of EVERY quantity alive in the database's cache, identity of repeated requests,
equality/hash against a resolution model, copies and pickles."""
import copy
import pickle
import random
from collections import OrderedDict

import z3

from symx import core
from symx.check import Raised

from .common import fresh_posc_db, pushed, snap_quantity

PID = "C07"
FUNCTIONS = ["ObtainQuantity (all key forms)", "Quantity.__init__/__hash__/__eq__/__reduce__/_ObtainReduced/MakeCopy/CreateCopyInstance/Copy/__copy__/__deepcopy__",
             "Quantity.CreateDerived/_CreateDerived/CreateEmpty/GetCategoryToUnitAndExps*/SetUnknownCaption", "Quantity arithmetic (_DoOperation)",
             "UnitDatabase.Sum/Subtract/Multiply/Divide/_DoOperationWithSameQuantity/_DoOperationResultingInNewQuantity/_MatchQuantities",
             "Scalar/Array arithmetic, GetValue, CheckValidity over the pooled quantities", "GetUnknownQuantity"]
BOUNDS = {
    "quick": "fresh POSC database per program; 22 creation requests (simple, default-category, alias category, legacy spelling, unknown with/without caption, "
             "empty, derived in dict/list/CreateDerived/operator form incl. same-type categories in different units and captions on derived maps); "
             "programs: request a, request b, one operation out of 14 with symbolic amounts, repeat both requests; all ordered pairs x seeded operation (about 500 programs)",
    "thorough": "same requests; every ordered pair x every operation, plus 6000 seeded programs with two chained operations",
}
BOUNDS_ALSO = "; also: 4 requests with the same entries in another order; the mutator with the current caption / '' / None and a second __init__ in three argument forms, on every request (always in, not sampled)"
BOUNDS = {k_: v_ + BOUNDS_ALSO for k_, v_ in BOUNDS.items()}
ASSUMPTIONS = ["A-FP for the amounts", "state is discrete: the solver's contribution is that every value-dependent path of each step is covered; "
               "aliasing that needs more than the stated chain depth is outside the claim", "resolution model: a request resolves to (ordered (category,(unit,exp)) map, caption)"]
CHUNK = 10


def _od(*items):
    return OrderedDict((c, [u, e]) for c, u, e in items)


def requests():
    """name -> (callable creating the quantity, resolved description or None when the request must fail)"""
    from barril.units import GetUnknownQuantity, ObtainQuantity, Quantity, Scalar

    def simple(cat, unit, cap=""):
        return (((cat, (unit, 1)),), cap)

    R = OrderedDict()
    R["m"] = (lambda: ObtainQuantity("m"), simple("length", "m"))
    R["m,length"] = (lambda: ObtainQuantity("m", "length"), simple("length", "m"))
    R["cm,depth"] = (lambda: ObtainQuantity("cm", "depth"), simple("depth", "cm"))
    R["Quantity(length,m)"] = (lambda: Quantity("length", "m"), simple("length", "m"))
    R["None,length"] = (lambda: ObtainQuantity(None, "length"), simple("length", "m"))
    R["legacy 1000ft3/d"] = (lambda: ObtainQuantity("1000ft3/d"), simple("volume flow rate", "Mcf/d"))
    R["Mcf/d"] = (lambda: ObtainQuantity("Mcf/d", "volume flow rate"), simple("volume flow rate", "Mcf/d"))
    R["degC"] = (lambda: ObtainQuantity("degC"), simple("temperature", "degC"))
    R["s"] = (lambda: ObtainQuantity("s"), simple("time", "s"))
    R["unknown"] = (lambda: GetUnknownQuantity(), simple("Unknown", "<unknown>"))
    R["unknown cap A"] = (lambda: GetUnknownQuantity("A"), simple("Unknown", "<unknown>", "A"))
    R["unknown cap B"] = (lambda: ObtainQuantity("<unknown>", "Unknown", "B"), simple("Unknown", "<unknown>", "B"))
    R["empty"] = (lambda: Quantity.CreateEmpty(), ((), ""))
    R["m2 dict"] = (lambda: ObtainQuantity(_od(("length", "m", 2))), ((("length", ("m", 2)),), ""))
    R["m2 list"] = (lambda: ObtainQuantity([("m", 2)], ["length"]), ((("length", ("m", 2)),), ""))
    R["m*m op"] = (lambda: (Scalar(1.0, "m") * Scalar(1.0, "m")).GetQuantity(), ((("length", ("m", 2)),), ""))
    R["m1 dict (simple)"] = (lambda: ObtainQuantity(_od(("length", "m", 1))), simple("length", "m"))
    R["m1 list (simple)"] = (lambda: ObtainQuantity([("m", 1)], ["length"]), simple("length", "m"))
    R["m/s derived"] = (lambda: Quantity.CreateDerived(_od(("length", "m", 1), ("time", "s", -1))), ((("length", ("m", 1)), ("time", ("s", -1))), ""))
    R["m/s list"] = (lambda: ObtainQuantity([("m", 1), ("s", -1)], ["length", "time"]), ((("length", ("m", 1)), ("time", ("s", -1))), ""))
    R["m.cm two cats"] = (lambda: Quantity.CreateDerived(_od(("length", "m", 1), ("diameter", "cm", 1))), ((("length", ("m", 1)), ("diameter", ("cm", 1))), ""))
    R["m2 cap X"] = (lambda: Quantity.CreateDerived(_od(("length", "m", 2)), unknown_unit_caption="X"), ((("length", ("m", 2)),), "X"))
    R["m2 cap Y"] = (lambda: ObtainQuantity(_od(("length", "m", 2)), None, "Y"), ((("length", ("m", 2)),), "Y"))
    R["m,length cap ''"] = (lambda: ObtainQuantity("m", "length", ""), simple("length", "m"))
    R["unknown cap ''"] = (lambda: ObtainQuantity("<unknown>", "Unknown", ""), simple("Unknown", "<unknown>"))
    R["m,length cap Z"] = (lambda: ObtainQuantity("m", "length", "as measured"), simple("length", "m", "as measured"))
    R["3 cats m.cm.m"] = (lambda: Quantity.CreateDerived(_od(("length", "m", 1), ("depth", "cm", 1), ("height", "m", 1))),
                          ((("length", ("m", 1)), ("depth", ("cm", 1)), ("height", ("m", 1))), ""))
    R["3 cats m.m.cm"] = (lambda: Quantity.CreateDerived(_od(("length", "m", 1), ("depth", "m", 1), ("height", "cm", 1))),
                          ((("length", ("m", 1)), ("depth", ("m", 1)), ("height", ("cm", 1))), ""))
    R["1/s list"] = (lambda: ObtainQuantity([("s", -1)], ["time"]), ((("time", ("s", -1)),), ""))
    R["empty cap"] = (lambda: ObtainQuantity(OrderedDict(), unknown_unit_caption="API gravity"), ((), "API gravity"))
    R["empty cap list"] = (lambda: ObtainQuantity([], [], "API gravity"), ((), "API gravity"))
    # the same entries in another ORDER are another composing map: a different quantity (different strings, unequal)
    R["m.s dict"] = (lambda: ObtainQuantity(_od(("length", "m", 1), ("time", "s", 1))), ((("length", ("m", 1)), ("time", ("s", 1))), ""))
    R["s.m dict"] = (lambda: ObtainQuantity(_od(("time", "s", 1), ("length", "m", 1))), ((("time", ("s", 1)), ("length", ("m", 1))), ""))
    R["s*m op"] = (lambda: (Scalar(1.0, "s") * Scalar(1.0, "m")).GetQuantity(), ((("time", ("s", 1)), ("length", ("m", 1))), ""))
    R["3 cats cm.m.m reordered"] = (lambda: Quantity.CreateDerived(_od(("depth", "cm", 1), ("length", "m", 1), ("height", "m", 1))),
                                    ((("depth", ("cm", 1)), ("length", ("m", 1)), ("height", ("m", 1))), ""))
    return R


OPS = ["refused_override", "edit_creation_spec", "scalar_add", "scalar_sub", "scalar_mul", "scalar_div", "scalar_rdiv", "q_add", "q_mul", "q_div", "array_add", "array_mul", "convert", "check_value",
       "makecopy", "pickle", "copies", "hand_out_maps", "readonly"]


def items(tier, seed):
    rng = random.Random(seed)
    names = list(requests().keys()) if False else None
    with pushed(fresh_posc_db()):
        names = list(requests().keys())
    out = []
    pairs = [(a, b) for a in names for b in names]
    if tier == "quick":
        for a, b in pairs:
            out.append({"a": a, "b": b, "ops": [rng.choice(OPS)]})
    else:
        for a, b in pairs:
            for o in OPS:
                out.append({"a": a, "b": b, "ops": [o]})
        for _ in range(6000):
            a, b = rng.choice(pairs)
            out.append({"a": a, "b": b, "ops": [rng.choice(OPS), rng.choice(OPS)]})
    # always in: the mutator / re-initialisation attempt on every request, and the order-variant requests against each other under several operations
    for a in names:
        out.append({"a": a, "b": names[(names.index(a) + 7) % len(names)], "ops": ["readonly"]})
        out.append({"a": a, "b": names[(names.index(a) + 5) % len(names)], "ops": ["refused_override"]})
        out.append({"a": a, "b": names[(names.index(a) + 3) % len(names)], "ops": ["pickle"]})
    variants = ["m.s dict", "s.m dict", "s*m op", "3 cats m.cm.m", "3 cats cm.m.m reordered", "m/s derived", "m/s list"]
    for a in variants:
        for b in variants:
            if a != b:
                for o in ("scalar_mul", "pickle", "makecopy", "hand_out_maps"):
                    out.append({"a": a, "b": b, "ops": [o]})
    out.append({"a": "m", "b": "s", "ops": ["scalar_mul"], "canary": True})
    rng.shuffle(out)
    return out


def inputs(cfg):
    return {"x": "real", "y": "real"}


def do_op(op, qa, qb, V):
    from barril.units import Array, ObtainQuantity, Quantity, Scalar, UnitsError
    from barril.units._quantity import ReadOnlyError

    x, y = V["x"], V["y"]
    try:
        if op.startswith("scalar_"):
            sa, sb = Scalar(qa, x), Scalar(qb, y)
            return {"scalar_add": lambda: sa + sb, "scalar_sub": lambda: sa - sb, "scalar_mul": lambda: sa * sb, "scalar_div": lambda: sa / sb,
                    "scalar_rdiv": lambda: x / sb}[op]().GetQuantity()
        if op == "q_add":
            return qa + qb
        if op == "q_mul":
            return qa * qb
        if op == "q_div":
            return qa / qb
        if op in ("array_add", "array_mul"):
            aa, ab = Array(qa, [x, y]), Array(qb, [y, x])
            return (aa + ab if op == "array_add" else aa * ab).GetQuantity()
        if op == "convert":
            u = {"m": "cm", "cm": "km", "degC": "K", "s": "min", "Mcf/d": "m3/s"}.get(qa.GetUnit(), qa.GetUnit())
            qa.ConvertScalarValue(x, u)
            qa.Convert([x, y], u)
            return None
        if op == "check_value":
            qa.CheckValue(x)
            Scalar(qa, x).IsValid()
            return None
        if op == "makecopy":
            m = qb.GetCategoryToUnitAndExpsCopy()
            q1 = qa.MakeCopy(m)
            q2 = qa.CreateCopyInstance(m)
            for ue in m.values():  # the caller edits ITS copy afterwards
                if isinstance(ue, list):
                    ue[1] = 7
            return [q1, q2, qa.MakeCopy(), qa.CreateCopyInstance(), qa.Copy()]
        if op == "pickle":
            return pickle.loads(pickle.dumps(qa))
        if op == "copies":
            return [copy.copy(qa), copy.deepcopy(qa), copy.deepcopy([qa, qb])[0]]
        if op == "hand_out_maps":
            m = qa.GetCategoryToUnitAndExpsCopy()
            for ue in m.values():
                if isinstance(ue, list):
                    ue[0] = "zz"
                    ue[1] = 99
            qa.GetComposingUnits(), qa.GetComposingCategories(), qa.GetComposingUnitsJoiningExponents(), qa.GetUnitName() if qa.GetCategory() != "" or True else None
            return None
        if op == "edit_creation_spec":
            # the caller keeps and later edits the very containers it passed to the creation routes
            made = []
            spec = _od(("length", "m", 1), ("time", "s", -1))
            made.append((Quantity.CreateDerived(spec), spec))
            spec2 = _od(("mass", "kg", 1), ("time", "s", -2))
            made.append((ObtainQuantity(spec2), spec2))
            lst = [["m", 3], ["s", -1]]
            made.append((ObtainQuantity(lst, ["length", "time"]), lst))
            spec3 = _od(("length", "cm", 2), ("time", "s", -1))
            made.append((qa.MakeCopy(spec3), spec3))
            snaps = [snap_quantity(q) for q, _ in made]
            for _q, sp in made:
                for ue in (sp.values() if hasattr(sp, "values") else sp):
                    ue[1] = ue[1] - 5
                    ue[0] = "km" if ue[0] != "s" else "h"
            again = [Quantity.CreateDerived(_od(("length", "m", 1), ("time", "s", -1))), ObtainQuantity(_od(("mass", "kg", 1), ("time", "s", -2))),
                     ObtainQuantity([("m", 3), ("s", -1)], ["length", "time"]), qa.MakeCopy(_od(("length", "cm", 2), ("time", "s", -1)))]
            same = all(snap_quantity(q) == s0 for (q, _), s0 in zip(made, snaps)) and all(a is q for a, (q, _) in zip(again, made))
            return "spec-ok" if same else "spec-aliased"
        if op == "refused_override":
            # a redefinition of the operands' categories that is REFUSED (foreign unit, contradictory limits): a failed operation like any other
            from barril.units import UnitDatabase

            db_ = UnitDatabase.GetSingleton()
            n_refused = 0
            for q_ in (qa, qb):
                cats = q_.GetComposingCategories()
                for c_ in ([cats] if isinstance(cats, str) else list(cats)):
                    if not c_ or not db_.IsValidCategory(c_):
                        continue
                    qt_ = db_.GetCategoryQuantityType(c_)
                    for kw in ({"valid_units": ["no such unit"]}, {"default_unit": "no such unit"}, {"min_value": 2.0, "max_value": 1.0}):
                        try:
                            db_.AddCategory(c_, qt_, override=True, **kw)
                        except Exception:  # noqa
                            n_refused += 1
            return "refused-%d" % n_refused
        if op == "readonly":
            # a second initialisation of a configured quantity (any argument form) leaves it as it is (the audit after this step compares every cached quantity)
            for q_ in (qa, qb):
                for args in (("length", "km"), (_od(("mass", "kg", 2)), None, "again"), ("time", "h", "cap")):
                    try:
                        q_.__init__(*args)
                    except Exception:  # noqa - refusing is fine, changing is not
                        pass
            # the mutator refuses every caption: a new one, the one the quantity already has, the empty one, None
            for cap in ("zzz", qa.GetUnknownCaption(), "", None, qb.GetUnknownCaption()):
                for q_ in (qa, qb):
                    try:
                        q_.SetUnknownCaption(cap)
                    except ReadOnlyError:
                        continue
                    return "readonly-missing"
            return "readonly-ok"
    except (UnitsError, ZeroDivisionError, ValueError, TypeError, AssertionError, KeyError) as e:
        return "exc:" + type(e).__name__
    raise KeyError(op)


def run(cfg, V):
    from barril.units import Quantity

    db = fresh_posc_db()
    Quantity._EMPTY_QUANTITY = None  # the class-level cache would otherwise keep the empty quantity of an earlier database
    problems = []
    with pushed(db):
        R = requests()
        seen = {}  # id(q) -> (q, first snapshot)

        def audit(tag):
            for k, q in list(db.quantities_cache.items()):
                s = snap_quantity(q)
                if id(q) in seen:
                    if seen[id(q)][1] != s:
                        problems.append("%s: cached quantity %r changed: %r -> %r" % (tag, k, seen[id(q)][1][:4], s[:4]))
                else:
                    seen[id(q)] = (q, s)

        fa, ra = R[cfg["a"]]
        fb, rb = R[cfg["b"]]
        qa, qb = fa(), fb()
        audit("after requests")
        sa, sb = snap_quantity(qa), snap_quantity(qb)
        results = []
        for op in cfg["ops"]:
            r = do_op(op, qa, qb, V)
            results.append(r)
            audit("after " + op)
            if snap_quantity(qa) != sa or snap_quantity(qb) != sb:
                problems.append("operand quantity changed by " + op)
        qa2, qb2 = fa(), fb()
        audit("after repeated requests")
        obs = {"problems": problems, "same_a": qa2 is qa if not cfg["a"].startswith("Quantity(") else qa2 == qa and hash(qa2) == hash(qa),
               "same_b": qb2 is qb if not cfg["b"].startswith("Quantity(") else qb2 == qb and hash(qb2) == hash(qb), "eq": qa == qb, "ne": qa != qb, "hash_eq": hash(qa) == hash(qb),
               "want_eq": ra == rb, "desc_a": (tuple((c, tuple(ue)) for c, ue in qa.GetCategoryToUnitAndExps().items()), qa.GetUnknownCaption() or ""),
               "want_a": ra, "results": []}
        for op, r in zip(cfg["ops"], results):
            if op == "pickle" and not isinstance(r, str):
                obs["results"].append(("pickle", r == qa and not (r != qa) and hash(r) == hash(qa) and snap_quantity(r)[:9] == snap_quantity(qa)[:9]))
            elif op == "copies" and not isinstance(r, str):
                obs["results"].append(("copies", all(c is qa for c in r)))
            elif op == "makecopy" and not isinstance(r, str):
                want = tuple((c, tuple(ue)) for c, ue in qb.GetCategoryToUnitAndExps().items())
                got = [tuple((c, tuple(ue)) for c, ue in q.GetCategoryToUnitAndExps().items()) for q in r[:2]]
                obs["results"].append(("makecopy", all(g == want for g in got) and all(c is qa for c in r[2:])))
            elif op == "readonly":
                obs["results"].append(("readonly", r == "readonly-ok"))
            elif op == "edit_creation_spec":
                obs["results"].append(("edit_creation_spec", r == "spec-ok"))
            elif isinstance(r, str) and r.startswith("exc:"):
                obs["results"].append((op, r))
            else:
                obs["results"].append((op, True))
        return obs


def props(cfg, T, obs):
    if isinstance(obs, Raised):
        return [("creation requests and the operation alphabet raise only documented errors", False)]
    P = [("no quantity alive in the cache ever changes (category, type, unit, composing map, caption, hash, repr)", obs["problems"] == []),
         ("the same ObtainQuantity-style request returns the identical object (equal+same hash for the legacy constructor)", bool(obs["same_a"]) and bool(obs["same_b"])),
         ("requests resolve to the documented (map, caption)", obs["desc_a"] == obs["want_a"]),
         ("== / != / hash follow the resolution: equal iff same map and caption", obs["eq"] == obs["want_eq"] and obs["ne"] == (not obs["want_eq"])
          and (obs["hash_eq"] or not obs["want_eq"]))]
    for name, ok in obs["results"]:
        if name in ("pickle", "copies", "makecopy", "readonly", "edit_creation_spec"):
            P.append(("%s behaves as an immutable value" % name, ok is True))
        elif isinstance(ok, str) and ok in ("exc:TypeError", "exc:KeyError", "exc:AssertionError") and name.startswith(("scalar_", "array_", "q_")):
            P.append(("arithmetic on obtained quantities raises only units errors / ZeroDivisionError / ValueError (%s)" % name, False))
    if cfg.get("canary"):
        P.append(("canary:m and s quantities are equal", bool(obs["eq"])))
    return P


def finding_key(cfg, name):
    return "[%s | %s] %s :: %s" % (cfg["a"], cfg["b"], "+".join(cfg["ops"]), name)
