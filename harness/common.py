"""Shared helpers for harnesses: databases, oracle terms, the dimensional model, snapshots."""
import contextlib
import random
from fractions import Fraction

import z3

from symx import core
from symx.core import SymReal, approx, rv, term, zabs

_DBS = {}


def get_db(kind):
    """The three databases the library can build by itself."""
    from barril.units import UnitDatabase

    if kind not in _DBS:
        if kind == "default":
            _DBS[kind] = UnitDatabase.GetSingleton()
        elif kind == "posc_nocat":
            db = UnitDatabase()
            UnitDatabase.FillUnitDatabaseWithPosc(db, fill_categories=False)
            _DBS[kind] = db
        elif kind == "simple":
            db = UnitDatabase()
            UnitDatabase.FillSimple(db)
            _DBS[kind] = db
        else:
            raise KeyError(kind)
    return _DBS[kind]


def fresh_posc_db():
    from barril.units import UnitDatabase

    db = UnitDatabase()
    UnitDatabase.FillUnitDatabaseWithPosc(db)
    return db


@contextlib.contextmanager
def pushed(db):
    from barril.units import UnitDatabase

    UnitDatabase.PushSingleton(db)
    try:
        yield db
    finally:
        UnitDatabase.PopSingleton()


def oracle_convert(db, qtype, u, v, x):
    """Term of frombase_v(tobase_u(x)) obtained from the real closures (anchored by C01)."""
    if isinstance(x, z3.ExprRef):
        x = SymReal(x)  # never hand a raw z3 term to the closures: z3 would parse float coefficients as decimals
    elif not isinstance(x, SymReal):
        x = SymReal(term(x))
    if u == v:
        return x.expr
    iu = db.GetInfo(qtype, u, fix_unknown=True)
    iv = db.GetInfo(qtype, v, fix_unknown=True)
    return term(iv.frombase(iu.tobase(x)))


def coef_tobase(db, qtype, u, x):
    """Physical amount in base units computed from the PUBLISHED POSC coefficients of the row, (A + B x) / (C + D x), not by calling the closure
    (None when the row publishes no coefficients or D != 0)."""
    info = db.GetInfo(qtype, u, fix_unknown=True)
    f = info.tobase
    if not all(hasattr(f, n) for n in ("__a__", "__b__", "__c__", "__d__")) or f.__d__ != 0:
        return None
    from fractions import Fraction

    xt = x if isinstance(x, z3.ExprRef) else term(x)
    a, b, c = (rv(Fraction(float(v))) for v in (f.__a__, f.__b__, f.__c__))
    return (a + b * xt) / c


def slope_of(info_fn):
    """Exact slope of an (affine) conversion closure: f(1) - f(0) evaluated in rationals."""
    f1 = info_fn(SymReal(z3.RealVal(1)))
    f0 = info_fn(SymReal(z3.RealVal(0)))
    return z3.simplify(term(f1) - term(f0))


def unit_factor(db, unit):
    """k such that base_magnitude = k * value for scale-only units (slope of tobase)."""
    info = db.unit_to_unit_info[unit]
    return slope_of(info.tobase)


def seeded_sample(seq, n, seed):
    seq = list(seq)
    if len(seq) <= n:
        return seq
    return random.Random(seed).sample(seq, n)


def zpow(e, n):
    r = z3.RealVal(1)
    for _ in range(abs(n)):
        r = r * e
    return r if n >= 0 else 1 / r


def value_terms(v):
    """list of z3 terms of a scalar value or of the elements of a container"""
    import numpy

    if isinstance(v, (list, tuple)) or isinstance(v, numpy.ndarray):
        return [term(e) for e in v]
    return [term(v)]


def exc_name(obs):
    from symx.check import Raised

    return obs.name if isinstance(obs, Raised) else None


# ------------------------------------------------------------------------------------------------
# expression programs over Scalars and the independent dimensional model (C03, C04, C05, C10, C20)
# ------------------------------------------------------------------------------------------------
BASIS = {
    "L": {"units": ["m", "cm", "km", "ft"], "cats": ["length", "depth"], "qt": "length"},
    "T": {"units": ["s", "min", "h"], "cats": ["time"], "qt": "time"},
    "M": {"units": ["kg", "g", "lbm"], "cats": ["mass"], "qt": "mass"},
    "K": {"units": ["degC", "degF", "K"], "cats": ["temperature"], "qt": "temperature"},  # (only ever used in denominators)
}


def n_leaves(spec):
    if spec[0] == "leaf":
        return 1
    if spec[0] == "num":
        return 0
    return sum(n_leaves(s) for s in spec[1:] if isinstance(s, list))


def build(spec, V, ctr=None, cls=None):
    """Builds a value object by applying the REAL barril operators. spec:
    ["leaf", unit, category] | ["mul", a, b] | ["div", a, b] | ["add", a, b] | ["sub", a, b] |
    ["fdiv", a, b] | ["pow", a, n] | ["num", k]"""
    from barril.units import Scalar

    if ctr is None:
        ctr = [0]
    op = spec[0]
    if op == "leaf":
        x = V["x%d" % ctr[0]]
        ctr[0] += 1
        return (cls or Scalar)(x, spec[1], spec[2])
    if op == "num":
        return spec[1]
    if op == "pow":
        return build(spec[1], V, ctr, cls) ** spec[2]
    a = build(spec[1], V, ctr, cls)
    b = build(spec[2], V, ctr, cls)
    if op == "mul":
        return a * b
    if op == "div":
        return a / b
    if op == "fdiv":
        return a // b
    if op == "add":
        return a + b
    if op == "sub":
        return a - b
    raise KeyError(op)


def spec_str(spec):
    op = spec[0]
    if op == "leaf":
        return "%s[%s]" % (spec[1], spec[2]) if spec[2] != BASIS_CAT_DEFAULT.get(spec[1]) else spec[1]
    if op == "num":
        return repr(spec[1])
    if op == "pow":
        return "(%s)**%d" % (spec_str(spec[1]), spec[2])
    sym = {"mul": "*", "div": "/", "fdiv": "//", "add": "+", "sub": "-"}[op]
    return "(%s%s%s)" % (spec_str(spec[1]), sym, spec_str(spec[2]))


BASIS_CAT_DEFAULT = {u: b["cats"][0] for b in BASIS.values() for u in b["units"]}

_KCACHE = {}


def kfactor(unit):
    from barril.units import UnitDatabase

    db = UnitDatabase.GetSingleton()
    key = (id(db), unit)
    if key not in _KCACHE:
        _KCACHE[key] = unit_factor(db, unit)
    return _KCACHE[key]


def qmap(obj):
    """[(category, unit, exp)] of a value object / quantity, as plain data"""
    q = obj.GetQuantity() if hasattr(obj, "GetQuantity") else obj
    return [(c, ue[0], ue[1]) for c, ue in q.GetCategoryToUnitAndExps().items()]


def mag_of(value, qm):
    """base-unit magnitude term: value * prod k(unit)^exp"""
    e = term(value)
    for _c, u, ex in qm:
        e = e * zpow(kfactor(u), ex)
    return e


def leaf_class(kind, empty=False):
    """constructor for the leaves of an expression program: Scalar, or a one-element (or empty) Array over the given container kind"""
    from barril.units import Array, Scalar

    if not kind:
        return Scalar
    import numpy
    from symx.shims import SymArray

    def mk(x, unit, cat):
        if empty:
            return Array({"list": [], "tuple": ()}.get(kind, numpy.array([], dtype=float)), unit, cat)
        if kind == "list":
            return Array([x], unit, cat)
        if kind == "tuple":
            return Array((x,), unit, cat)
        return Array(SymArray([x]) if core.is_sym(x) else numpy.array([x], dtype=float), unit, cat)

    return mk


def first_value(o):
    v = o.GetAbstractValue()
    import numpy

    if isinstance(v, (list, tuple, numpy.ndarray)) and len(v) == 0:
        return None

    return v[0] if isinstance(v, (list, tuple, numpy.ndarray)) else v


def mag(obj):
    return mag_of(obj.GetAbstractValue(), qmap(obj))


def dims_of(qm):
    from barril.units import UnitDatabase

    db = UnitDatabase.GetSingleton()
    d = {}
    for c, _u, ex in qm:
        qt = db.GetCategoryQuantityType(c)
        d[qt] = d.get(qt, 0) + ex
    return {k: v for k, v in d.items() if v != 0}


def dims(obj):
    return dims_of(qmap(obj))


def model_dims(spec):
    """exponent vector predicted by dimensional analysis (independent of barril's implementation)"""
    op = spec[0]
    if op == "leaf":
        qt = [b["qt"] for b in BASIS.values() if spec[1] in b["units"]][0]
        return {qt: 1}
    if op == "num":
        return {}
    if op == "pow":
        return {k: v * spec[2] for k, v in model_dims(spec[1]).items()}
    a, b = model_dims(spec[1]), model_dims(spec[2])
    if op in ("add", "sub"):
        return a
    sign = 1 if op == "mul" else -1
    d = dict(a)
    for k, v in b.items():
        d[k] = d.get(k, 0) + sign * v
    return {k: v for k, v in d.items() if v != 0}


# ------------------------------------------------------------------------------------------------
# snapshots (plain data compared with ==; proxies are identified by the z3 AST they carry)
# ------------------------------------------------------------------------------------------------
def _atom(e):
    """identity-preserving description of one stored amount"""
    if isinstance(e, (core.SymReal, core.SymFP, core.SymInt)):
        return ("sym", e.expr.get_id())
    if isinstance(e, float):
        return ("f", repr(e))
    if isinstance(e, tuple):
        return ("t",) + tuple(_atom(x) for x in e)
    try:
        import numpy

        if isinstance(e, numpy.generic):
            return ("np", repr(e.item()))
    except ImportError:
        pass
    return ("o", repr(e))


def snap_quantity(q):
    return (q.GetCategory(), q.GetQuantityType(), q.GetUnit(), tuple((c, tuple(ue)) for c, ue in q.GetCategoryToUnitAndExps().items()),
            q.GetComposingUnits() if isinstance(q.GetComposingUnits(), str) else tuple(tuple(x) for x in q.GetComposingUnits()),
            q.GetComposingCategories() if isinstance(q.GetComposingCategories(), str) else tuple(q.GetComposingCategories()),
            tuple(q.GetComposingUnitsJoiningExponents()), q.GetUnknownCaption(), q.IsDerived(), hash(q), repr(q))


def snap_cache(db):
    return {repr(k): (id(q), snap_quantity(q)) for k, q in db.quantities_cache.items()}


def snap_value(o):
    import numpy
    from barril.basic.fraction import FractionValue

    v = o.GetAbstractValue()
    if isinstance(v, FractionValue):
        vs = ("fv", _atom(v.GetNumber()), repr(v.GetFraction().numerator), repr(v.GetFraction().denominator), id(v), id(v.GetFraction()))
    elif isinstance(v, (list, tuple, numpy.ndarray)):
        vs = (type(v).__name__, id(v), len(v), tuple(_atom(e) for e in v))
    else:
        vs = ("scalar", _atom(v))
    return (type(o).__name__, id(o.GetQuantity()), snap_quantity(o.GetQuantity()), vs, getattr(o, "_dimension", None))


def snap_registry(db):
    """what the database REPORTS through its public getters (memo tables are not part of it)"""
    out = {"qts": tuple(db.GetQuantityTypes())}
    units = {}
    for qt in db.GetQuantityTypes():
        units[qt] = tuple((i.unit, i.name, i.default_category, id(i.tobase), id(i.frombase)) for i in db.GetInfos(qt))
    out["units"] = units
    cats = {}
    for c in list(db.IterCategories()):
        i = db.GetCategoryInfo(c)
        cats[c] = (i.quantity_type, tuple(i.valid_units) if i.valid_units is not None else None, i.default_unit, _atom(i.default_value),
                   _atom(i.min_value) if i.min_value is not None else None, _atom(i.max_value) if i.max_value is not None else None,
                   i.is_min_exclusive, i.is_max_exclusive, i.caption, tuple(db.GetValidUnits(c)), db.GetDefaultUnit(c), db.GetBaseUnit(i.quantity_type))
    out["cats"] = cats
    return out
