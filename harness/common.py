"""Shared helpers for harnesses: databases, oracle terms, the dimensional model, snapshots."""
import contextlib
import random
from fractions import Fraction

import z3

from symx import core
from symx.core import SymReal, approx, rv, term, zabs

_DBS = {}


def get_db(kind):
    """The three databases the library can build by itself."""
    from barril.units import UnitDatabase

    if kind not in _DBS:
        if kind == "default":
            _DBS[kind] = UnitDatabase.GetSingleton()
        elif kind == "posc_nocat":
            db = UnitDatabase()
            UnitDatabase.FillUnitDatabaseWithPosc(db, fill_categories=False)
            _DBS[kind] = db
        elif kind == "simple":
            db = UnitDatabase()
            UnitDatabase.FillSimple(db)
            _DBS[kind] = db
        else:
            raise KeyError(kind)
    return _DBS[kind]


def fresh_posc_db():
    from barril.units import UnitDatabase

    db = UnitDatabase()
    UnitDatabase.FillUnitDatabaseWithPosc(db)
    return db


@contextlib.contextmanager
def pushed(db):
    from barril.units import UnitDatabase

    UnitDatabase.PushSingleton(db)
    try:
        yield db
    finally:
        UnitDatabase.PopSingleton()


def oracle_convert(db, qtype, u, v, x):
    """Term of frombase_v(tobase_u(x)) obtained from the real closures (anchored by C01)."""
    if u == v:
        return x
    iu = db.GetInfo(qtype, u, fix_unknown=True)
    iv = db.GetInfo(qtype, v, fix_unknown=True)
    return iv.frombase(iu.tobase(x))


def slope_of(info_fn):
    """Exact slope of an (affine) conversion closure: f(1) - f(0) evaluated in rationals."""
    f1 = info_fn(SymReal(z3.RealVal(1)))
    f0 = info_fn(SymReal(z3.RealVal(0)))
    return z3.simplify(term(f1) - term(f0))


def unit_factor(db, unit):
    """k such that base_magnitude = k * value for scale-only units (slope of tobase)."""
    info = db.unit_to_unit_info[unit]
    return slope_of(info.tobase)


def seeded_sample(seq, n, seed):
    seq = list(seq)
    if len(seq) <= n:
        return seq
    return random.Random(seed).sample(seq, n)


def zpow(e, n):
    r = z3.RealVal(1)
    for _ in range(abs(n)):
        r = r * e
    return r if n >= 0 else 1 / r


def value_terms(v):
    """list of z3 terms of a scalar value or of the elements of a container"""
    import numpy

    if isinstance(v, (list, tuple)) or isinstance(v, numpy.ndarray):
        return [term(e) for e in v]
    return [term(v)]


def exc_name(obs):
    from symx.check import Raised

    return obs.name if isinstance(obs, Raised) else None
