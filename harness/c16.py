"""C16 - legacy unit spellings are exact aliases and never capture current units.
The string dimension is finite and enumerated exhaustively (every legacy spelling derivable from the
substitution list for every table unit; every current symbol); the amounts are symbolic."""
import itertools
import random

import z3

from symx.check import Raised
from symx.core import approx, term

from .common import fresh_posc_db, get_db, oracle_convert, pushed

PID = "C16"
FUNCTIONS = ["unit_database.FixUnitIfIsLegacy / _LEGACY_TO_CURRENT", "UnitDatabase.GetInfo (fix_legacy)", "UnitDatabase.GetDefaultCategory", "UnitDatabase.AddCategory "
             "(legacy valid/default units)", "ObtainQuantity", "Quantity.__init__ (legacy retry)", "Scalar/Array/FractionScalar/FixedArray construction", "CreateCopy(unit=)",
             "GetValue/GetValues(unit)", "UnitDatabase.Convert", "Array.FromScalars"]
BOUNDS = {
    "quick": "values: all reals; EVERY legacy spelling derivable from the substitution list for every table unit (all-occurrence and single-occurrence "
             "replacements that rewrite back to the unit) x 14 API entries; every one of the current symbols as a fixed point; idempotence on every derived spelling",
    "thorough": "same (the quantifier is finite and already exhausted in quick); additionally every pair of substitutions applied to every unit",
}
BOUNDS_ALSO = '; also: every container kind (list, tuple, ndarray, list of tuples) to and from the legacy spelling through Convert / GetValues / CreateCopy, FixedArray.IndexAsScalar / ChangingIndex; the value-less form in a legacy unit for a category with a symbolic default; what each legacy TOKEN spells out (1000ft3, M(m3), k(ft3) ...) held independently of the substitution list'
BOUNDS = {k_: v_ + BOUNDS_ALSO for k_, v_ in BOUNDS.items()}
ASSUMPTIONS = ["A-FP", "idempotence on ARBITRARY strings is not claimed by the property ('gmolee') and not checked", "oracle conversions from the real closures (C01)"]
EXHAUSTIVE = {"quick": True, "thorough": True}
CHUNK = 4


TOKEN_MEANING = {"1000ft3": (1000.0, "ft", 3), "1000m3": (1000.0, "m", 3), "M(ft3)": (1e6, "ft", 3), "M(m3)": (1e6, "m", 3), "k(ft3)": (1000.0, "ft", 3)}


def derive_spellings(db, double=False):
    from barril.units.unit_database import _LEGACY_TO_CURRENT, FixUnitIfIsLegacy

    out = {}
    units = list(db.unit_to_unit_info)
    cur = set(units)
    for u in units:
        cands = set()
        for legacy, current in _LEGACY_TO_CURRENT:
            if current in u:
                cands.add(u.replace(current, legacy))
                parts = u.split(current)
                for i in range(1, len(parts)):
                    cands.add(current.join(parts[:i]) + legacy + current.join(parts[i:]))
        if double:
            for c in list(cands):
                for legacy, current in _LEGACY_TO_CURRENT:
                    if current in c:
                        cands.add(c.replace(current, legacy))
        for sp in cands:
            if sp in cur or sp == u:
                continue
            # reference rewriting (independent of the implementation under test): every substitution, every occurrence, in list order
            fixed = sp
            for legacy, current in _LEGACY_TO_CURRENT:
                fixed = fixed.replace(legacy, current)
            if fixed == u:
                out.setdefault(u, set()).add(sp)
    return {u: sorted(v) for u, v in out.items()}


def items(tier, seed):
    db = get_db("default")
    sp = derive_spellings(db, double=(tier != "quick"))
    out = [{"k": "spelling", "u": u, "sp": s} for u, ss in sorted(sp.items()) for s in ss]
    units = sorted(db.unit_to_unit_info)
    for i in range(0, len(units), 100):
        out.append({"k": "fixedpoints", "units": units[i:i + 100]})
    out.append({"k": "spelling_count", "n": len(out)})
    from barril.units.unit_database import _LEGACY_TO_CURRENT

    for legacy, current in _LEGACY_TO_CURRENT:
        out.append({"k": "token_meaning", "legacy": legacy, "current": current})
    out[0]["canary"] = True
    random.Random(seed).shuffle(out)
    return out


def inputs(cfg):
    return {"x": "real"}


def run(cfg, V):
    from barril.units import Array, FixedArray, FractionScalar, ObtainQuantity, Scalar
    from barril.units.unit_database import FixUnitIfIsLegacy

    x = V["x"]
    if cfg["k"] == "fixedpoints":
        bad = [u for u in cfg["units"] if FixUnitIfIsLegacy(u) != (False, u)]
        return {"bad": bad}
    if cfg["k"] == "spelling_count":
        return {"n": cfg["n"]}
    if cfg["k"] == "token_meaning":
        # what a legacy token SPELLS OUT (a number times a power of a table unit), held here independently of the substitution list
        meaning = TOKEN_MEANING.get(cfg["legacy"])
        db = get_db("default")
        U = db.unit_to_unit_info
        if meaning is None or cfg["current"] not in U or meaning[1] not in U:
            return {"skip": True, "known_token": meaning is not None}
        mult, unit, power = meaning
        one = U[unit].tobase(1.0) - U[unit].tobase(0.0)
        return {"skip": False, "current": U[cfg["current"]].tobase(x), "spelled": x * (mult * one ** power), "same_type": True}
    u, sp = cfg["u"], cfg["sp"]
    db = fresh_posc_db()
    with pushed(db):
        info = db.unit_to_unit_info[u]
        qt = info.quantity_type
        # history: the spelling is first looked up under a WRONG quantity type (rightly refused), before any legitimate use
        from barril.units import UnitsError

        wrong = "time" if qt != "time" else "length"
        for call in (lambda: db.Convert(wrong, sp, db.GetUnits(wrong)[0], 1.0), lambda: db.GetInfo(wrong, sp), lambda: Scalar(1.0, sp, wrong)):
            try:
                call()
                wrongly_accepted = True
            except UnitsError:
                wrongly_accepted = False
            if wrongly_accepted:
                break
        base = db.GetUnits(qt)[0]
        other = [w for w in db.GetUnits(qt) if w != u][:1]
        cat = db.GetDefaultCategory(u)
        o = {"fix1": FixUnitIfIsLegacy(sp), "fix2": FixUnitIfIsLegacy(FixUnitIfIsLegacy(sp)[1]), "cat": (db.GetDefaultCategory(sp), cat)}
        o["q"] = ObtainQuantity(sp) == ObtainQuantity(u) and ObtainQuantity(sp, cat) == ObtainQuantity(u, cat) and ObtainQuantity(sp).GetUnit() == u
        o["scalar"] = Scalar(x, sp) == Scalar(x, u) and Scalar(x, sp, cat) == Scalar(x, u, cat) and Scalar((x, sp)) == Scalar((x, u)) and Scalar(cat, x, sp) == Scalar(cat, x, u)
        o["array"] = Array([x, x], sp) == Array([x, x], u) and Array(cat, (x,), sp) == Array(cat, (x,), u)
        o["fixed"] = FixedArray(2, [x, x], sp) == FixedArray(2, [x, x], u)
        o["fraction"] = FractionScalar(x, sp) == FractionScalar(x, u) and FractionScalar(x, sp, cat) == FractionScalar(x, u, cat)
        o["fromscalars"] = Array.FromScalars([Scalar(x, u)], unit=sp) == Array.FromScalars([Scalar(x, u)], unit=u)
        s_base = Scalar(x, base, cat)
        o["copy"] = s_base.CreateCopy(unit=sp) == s_base.CreateCopy(unit=u) and s_base.CreateCopy(x, sp, cat) == s_base.CreateCopy(x, u, cat)
        o["getvalue"] = (s_base.GetValue(sp), s_base.GetValue(u), Scalar(x, sp).GetValue(base), Array([x], base, cat).GetValues(sp)[0])
        o["convert"] = (db.Convert(qt, sp, base, x), db.Convert(cat, base, sp, x), db.Convert(qt, sp, u, x), db.Convert(qt, [x][0:0] or sp, sp, x))
        o["lists"] = (db.Convert(qt, sp, base, [x])[0], db.Convert(qt, sp, base, (x,))[0])
        # every container kind, legacy spelling as SOURCE and as TARGET, through Convert, Array.GetValues, CreateCopy
        from symx.shims import SymArray
        from symx import core as _core
        import numpy as _np

        mk = {"list": lambda: [x, x], "tuple": lambda: (x, x), "numpy": lambda: SymArray([x, x]) if _core.is_sym(x) else _np.array([x, x], dtype=float),
              "tuples": lambda: [(x, x), (x,)]}
        flat = lambda r: [e for t in r for e in (t if isinstance(t, tuple) else (t,))]  # noqa: E731
        o["cont_to_legacy"] = {kk: flat(Array(f(), base, cat).GetValues(sp)) + flat(Array(f(), base, cat).CreateCopy(unit=sp).GetValues())
                               + (flat(db.Convert(qt, base, sp, f())) if kk != "tuples" else []) for kk, f in mk.items()}
        o["cont_from_legacy"] = {kk: flat(Array(f(), sp, cat).GetValues(base)) + (flat(db.Convert(qt, sp, base, f())) if kk != "tuples" else []) for kk, f in mk.items()}
        o["fixed_legacy"] = (FixedArray(2, [x, x], base, cat).IndexAsScalar(0, ObtainQuantity(sp, cat)).GetValue(), FixedArray(2, mk["numpy"](), base, cat).ChangingIndex(1, (x, sp)).GetUnit())
        o["qt_base"] = (qt, base)
        # every category of the quantity type, and constructions that by-pass the quantity cache after the spelling was already used once
        from barril.units import Quantity

        others = [c for c in db.IterCategories() if db.GetCategoryQuantityType(c) == qt]
        o["other_cats"] = [c for c in others if not (Scalar(x, sp, c) == Scalar(x, u, c) and Scalar(x, sp, c).GetUnit() == u and Array([x], sp, c) == Array([x], u, c))]
        q_direct = Quantity(cat, sp)
        q_cap = ObtainQuantity(sp, cat, "second caption")
        o["wrong_type_refused"] = not wrongly_accepted
        o["captioned"] = (ObtainQuantity(sp, cat, "gas rate") == ObtainQuantity(u, cat, "gas rate"), ObtainQuantity(sp, cat, "gas rate").GetUnknownCaption(),
                          ObtainQuantity(u, cat).GetUnknownCaption(), Scalar(x, u, cat).GetQuantity().GetUnknownCaption())
        o["other_cats_convert"] = [c for c in others if not (_same_term(Scalar(x, base, c).GetValue(sp), Scalar(x, base, c).GetValue(u))
                                                              and Scalar(x, base, c).CreateCopy(unit=sp) == Scalar(x, base, c).CreateCopy(unit=u))]
        o["second_use"] = (q_direct == ObtainQuantity(u, cat), q_direct.GetUnit(), q_cap.GetUnit(), Scalar(q_direct, x) == Scalar(x, u, cat))
        # category registration with legacy spellings
        i1 = db.AddCategory("c16_a", qt, valid_units=[sp] + other, default_unit=sp)
        i2 = db.AddCategory("c16_b", qt, valid_units=[sp] + other)
        lst = [sp]
        i3 = db.AddCategory("c16_c", qt, valid_units=lst)
        o["addcat"] = (i1.default_unit, list(i1.valid_units), i2.default_unit, list(i2.valid_units), i3.default_unit, list(i3.valid_units), [u] + other, base)
        # history: objects in the legacy and in the current spelling exist, then their category is REDEFINED with limits; new objects follow the new definition alike
        db.AddCategory("c16_h", qt, default_unit=base)
        Scalar(x, sp, "c16_h"), Scalar(x, u, "c16_h"), Array([x], sp, "c16_h"), ObtainQuantity(sp, "c16_h")
        db.AddCategory("c16_h", qt, override=True, default_unit=base, min_value=1e30, default_value=1e30)
        h1, h2 = Scalar(x, sp, "c16_h"), Scalar(x, u, "c16_h")
        o["after_redefinition"] = (h1.IsValid(), h2.IsValid(), Array([x], sp, "c16_h").IsValid(), h1 == h2, ObtainQuantity(sp, "c16_h").GetCategoryInfo() is db.GetCategoryInfo("c16_h"))
        # the value-less form in a legacy-spelled unit, for a category whose default value is NOT zero
        db.AddCategory("c16_d", qt, default_unit=base, default_value=x)
        sd1, sd2 = Scalar("c16_d", unit=sp), Scalar("c16_d", unit=u)
        fd1, fd2 = FractionScalar("c16_d", unit=sp), FractionScalar("c16_d", unit=u)
        o["default_in_legacy"] = (sd1 == sd2 and fd1 == fd2 and sd1.GetUnit() == u, sd1.GetValue(), Scalar(ObtainQuantity(sp, "c16_d")).GetValue())
        o["addcat_use"] = Scalar("c16_a").GetUnit() == u and Scalar(x, sp, "c16_b") == Scalar(x, u, "c16_b") and u in db.GetValidUnits("c16_c")
        return o


def _same_term(a, b):
    from symx import core

    try:
        return z3.is_true(z3.simplify(core.term(a) == core.term(b)))
    except core.HarnessError:
        return a == b


def props(cfg, T, obs):
    if isinstance(obs, Raised):
        return [("a legacy spelling is accepted wherever a unit string is taken", False)]
    if cfg["k"] == "fixedpoints":
        return [("no current unit symbol is rewritten", obs["bad"] == [])]
    if cfg["k"] == "spelling_count":
        return [("the substitution list still yields legacy spellings to check", obs["n"] >= 40)]
    if cfg["k"] == "token_meaning":
        if obs["skip"]:
            return [("every token of the substitution list has a known meaning or is a pure re-spelling", obs["known_token"] or cfg["legacy"] in ("Ns/m", "lbmole", "gmole"))]
        from symx.core import zabs

        return [("the current symbol a legacy token is rewritten to denotes the amount the token spells out (1000ft3 = 1000 ft3, M(m3) = 10^6 m3, k(ft3) = 10^3 ft3 ...)",
                 zabs(term(obs["current"]) - term(obs["spelled"])) <= z3.RealVal("1/100000") * zabs(term(obs["spelled"])))]
    u, sp, x = cfg["u"], cfg["sp"], T["x"]
    db = get_db("default")
    qt, base = obs["qt_base"]
    to_base = oracle_convert(db, qt, u, base, x)
    from_base = oracle_convert(db, qt, base, u, x)
    d1, v1, d2, v2, d3, v3, want_valid, base_u = obs["addcat"]
    P = [
        ("rewrite gives the current spelling", obs["fix1"] == (True, u)),
        ("rewriting is idempotent", obs["fix2"] == (False, u)),
        ("GetDefaultCategory agrees", obs["cat"][0] == obs["cat"][1]),
        ("ObtainQuantity builds the equal quantity (current unit inside)", bool(obs["q"])),
        ("Scalar forms equal", bool(obs["scalar"])), ("Array forms equal", bool(obs["array"])), ("FixedArray equal", bool(obs["fixed"])),
        ("FractionScalar equal", bool(obs["fraction"])), ("accepted under every category of the quantity type", obs["other_cats"] == []),
        ("a legacy spelling under a wrong quantity type is refused (also before its first legitimate use)", bool(obs["wrong_type_refused"])),
        ("a caption given together with a legacy spelling is kept, and does not leak into caption-less quantities", obs["captioned"] == (True, "gas rate", "", "")),
        ("GetValue(legacy) / CreateCopy(unit=legacy) work under every category of the quantity type", obs["other_cats_convert"] == []),
        ("a second, cache-bypassing use of the spelling (legacy constructor, another caption) still yields the current unit",
         obs["second_use"] == (True, u, u, True)), ("FromScalars(unit=legacy) equal", bool(obs["fromscalars"])), ("CreateCopy(unit=legacy) equal", bool(obs["copy"])),
        ("GetValue(legacy) gives the same conversion", z3.And(term(obs["getvalue"][0]) == term(obs["getvalue"][1]), approx(obs["getvalue"][0], from_base),
                                                            approx(obs["getvalue"][2], to_base), approx(obs["getvalue"][3], from_base))),
        ("UnitDatabase.Convert accepts the legacy spelling on both sides", z3.And(approx(obs["convert"][0], to_base), approx(obs["convert"][1], from_base),
                                                                                 approx(obs["convert"][2], x), approx(obs["convert"][3], x),
                                                                                 approx(obs["lists"][0], to_base), approx(obs["lists"][1], to_base))),
        ("every container kind converts TO the legacy spelling like the current spelling (GetValues, CreateCopy, Convert; list, tuple, numpy, list of tuples)",
         z3.And(*[approx(e, from_base) for es in obs["cont_to_legacy"].values() for e in es], z3.BoolVal(all(len(es) >= 4 for es in obs["cont_to_legacy"].values())))),
        ("every container kind converts FROM the legacy spelling like the current spelling",
         z3.And(*[approx(e, to_base) for es in obs["cont_from_legacy"].values() for e in es], z3.BoolVal(all(len(es) >= 2 for es in obs["cont_from_legacy"].values())))),
        ("FixedArray.IndexAsScalar / ChangingIndex accept a legacy-spelled quantity / amount unit", z3.And(approx(obs["fixed_legacy"][0], from_base), z3.BoolVal(obs["fixed_legacy"][1] == u))),
        ("AddCategory stores current spellings (default and valid units)", d1 == u and v1 == want_valid and v2 == want_valid and v3 == [u]
         and d2 == (base_u if base_u in want_valid else u) and d3 == u),
        ("a category registered with legacy spellings is usable", bool(obs["addcat_use"])),
        ("after the category is redefined, objects built with the legacy spelling follow the NEW definition exactly like the current spelling",
         obs["after_redefinition"][0] == obs["after_redefinition"][1] == obs["after_redefinition"][2] and bool(obs["after_redefinition"][3]) and bool(obs["after_redefinition"][4])),
        ("Scalar(category, unit=legacy) without a value carries the category default like the current spelling", z3.And(z3.BoolVal(bool(obs["default_in_legacy"][0])),
                                                                                                                   approx(obs["default_in_legacy"][1], from_base), approx(obs["default_in_legacy"][2], from_base))),
    ]
    if cfg.get("canary"):
        P.append(("canary:legacy->base conversion is the identity", approx(obs["convert"][0], x)))
    return P


def finding_key(cfg, name):
    return "%s<-%s :: %s" % (cfg.get("u"), cfg.get("sp"), name) if cfg["k"] == "spelling" else "%s :: %s" % (cfg["k"], name)
