"""C20 - derived unit, category and type strings render every factor unambiguously.
Decider 1 (CrossHair): the real Quantity._CreateUnitsWithJoinedExponentsString and Quantity._MakeStr with SYMBOLIC
integer exponents in [-4,4] (k = 1..3 factors; 4 in thorough) against a reference renderer - 'Confirmed over all paths'.
Decider 2 (symx driver, values symbolic): derived quantities built by the real operators; GetUnit() parsed back by
an independent grammar parser recovers the joined composing units; category / quantity type / unit name strings equal
the reference rendering; simple quantities return the registered strings; repr/str of value objects show the unit."""
import itertools
import json
import os
import random
import re
import subprocess
import sys
import time

import z3

from symx import check, core
from symx.check import Raised

from .c20_contracts import ref_makestr, ref_units
from .common import get_db

PID = "C20"
FUNCTIONS = ["Quantity._CreateUnitsWithJoinedExponentsString (CrossHair, symbolic exponents)", "Quantity._MakeStr (CrossHair, symbolic exponents)",
             "Quantity.__init__ (derived branch)/GetUnit/GetCategory/GetQuantityType/GetUnitName/GetComposingUnitsJoiningExponents", "Scalar.__repr__/__str__/GetFormatted",
             "Array.__repr__/__str__", "Scalar/Quantity operators building the derived quantities"]
BOUNDS = {
    "quick": "CrossHair: exponents all integers in [-4,4], k = 1, 2, 3 factors for the unit renderer and k = 1, 2 for _MakeStr (5 conditions + 1 canary), per-condition timeout 90 s; end to end: every exponent "
             "vector in [-4,4]^3 over (m, s, kg) built by the real operators in a seeded order, 120 vectors with a repeated quantity type under two categories, all table "
             "units as simple quantities",
    "thorough": "same plus _MakeStr k = 3 and both renderers with k = 4 (per-condition timeout 1500 s) and two different construction orders per exponent vector",
}
BOUNDS_ALSO = '; also per derived quantity: reverse construction order, re-obtaining from composing lists, GetUnitName of value objects, empty-specification copies, pickle round trips (quantity, Scalar, FixedArray), Quantity ** n / * / /, empty-Array products and quotients, a simple operand times / over the derived one with independently computed strings; auxiliary: non-finite amounts'
BOUNDS = {k_: v_ + BOUNDS_ALSO for k_, v_ in BOUNDS.items()}
ASSUMPTIONS = ["CrossHair 0.0.110 'Confirmed over all paths' is trusted (z3 underneath); anything else is inconclusive", "A-TABLE: the reference renderer and the grammar parser are the "
               "specification, written from the property text", "unit symbols used (m, s, kg, cm, K) are atomic: no '.', '/', no trailing digit"]
CHUNK = 40
NEEDS_CANARY = True
CONTRACTS = os.path.join(os.path.dirname(os.path.abspath(__file__)), "c20_contracts.py")


# ---- independent grammar parser ---------------------------------------------------------------------------------
def parse_unit(s):
    """-> tuple of (unit, exp) in reading order, or None when the string is not in the grammar"""
    if s.count("/") > 1:
        return None
    num, sep, den = s.partition("/")
    out = []
    if sep and not den:
        return None
    for part, sign in ((num, 1), (den, -1)):
        if part == "" and sign == -1:
            continue
        if part == "1" and sign == 1 and sep:
            continue
        if part == "":
            return None if sep or sign == 1 and s != "" else ()
        for tok in part.split("."):
            m = re.match(r"^([A-Za-z]+)(\d*)$", tok)
            if not m:
                return None
            out.append((m.group(1), sign * (int(m.group(2)) if m.group(2) else 1)))
    return tuple(out)


# ---- end-to-end items (driven by symx.check.drive) ----------------------------------------------------------------
def items(tier, seed):
    rng = random.Random(seed)
    out = []
    vecs = [v for v in itertools.product(range(-4, 5), repeat=3) if any(v)]
    for v in vecs:
        out.append({"k": "derived", "e": list(v), "order": rng.randrange(6)})
        if tier != "quick":
            out.append({"k": "derived", "e": list(v), "order": rng.randrange(6)})
    for _ in range(120 if tier == "quick" else 600):
        out.append({"k": "two_cats", "e": [rng.randint(-3, 3), rng.randint(-3, 3), rng.randint(-2, 2)], "same_unit": rng.random() < 0.5})
        out.append({"k": "two_cats", "e": [rng.randint(-3, 3), rng.randint(-3, 3), rng.choice([-2, -1, 1, 2])], "same_unit": len(out) % 3 != 0, "interleave": True})
    db = get_db("default")
    units = sorted(db.unit_to_unit_info)
    for i in range(0, len(units), 60):
        out.append({"k": "simple", "units": units[i:i + 60]})
    for leg, cur in (("lbmole", "lbmol"), ("gmole", "gmol"), ("1000ft3/d", "Mcf/d"), ("Ns/m", "N.s/m"), ("M(m3)", "MMm3")):
        out.append({"k": "legacy_derived", "leg": leg, "cur": cur})
    for e_ in ((1, 1), (2, -1), (-1, 1), (1, -2)):
        out.append({"k": "requalified_category", "e": list(e_)})
    out.append({"k": "derived", "e": [1, -1, -1], "order": 0, "canary": True})
    rng.shuffle(out)
    return out


def inputs(cfg):
    return {"x": "real"}


def _power(s, e):
    """Scalar ** |e| built by repeated real multiplication"""
    r = s
    for _ in range(abs(e) - 1):
        r = r * s
    return r


def run(cfg, V):
    from barril.units import Array, ObtainQuantity, Scalar

    x = V["x"]
    k = cfg["k"]
    if k == "simple":
        db = get_db("default")
        bad = []
        for u in cfg["units"]:
            info = db.unit_to_unit_info[u]
            for c in {db.GetDefaultCategory(u), info.quantity_type if info.quantity_type in db.categories_to_quantity_types else None} - {None}:
                q = ObtainQuantity(u, c)
                s = Scalar(q, x)
                if (q.GetUnit(), q.GetCategory(), q.GetQuantityType(), q.GetUnitName()) != (u, c, info.quantity_type, info.name):
                    bad.append((u, c, "strings"))
                if ("'%s'" % u) not in repr(s) or ("'%s'" % c) not in repr(s) or not str(s).endswith("[%s]" % u):
                    bad.append((u, c, "repr/str"))
        return {"bad": bad}
    if k == "derived":
        e = cfg["e"]
        leaves = [("m", "length", "metre"), ("s", "time", "second"), ("kg", "mass", "kilogram")]
        order = list(itertools.permutations(range(3)))[cfg["order"]]
        acc = None
        for i in order:
            if e[i] == 0:
                continue
            f = _power(Scalar(1.0, leaves[i][0]), e[i])
            if acc is None:
                acc = f if e[i] > 0 else 1.0 / f
            else:
                acc = acc * f if e[i] > 0 else acc / f
        s = acc
        q = s.GetQuantity()
        present = [i for i in order if e[i] != 0]
        # the same factors multiplied in the REVERSE order must render in their own order (no sharing between permutations)
        racc = None
        for i in reversed(order):
            if e[i] == 0:
                continue
            f = _power(Scalar(1.0, leaves[i][0]), e[i])
            racc = (f if e[i] > 0 else 1.0 / f) if racc is None else (racc * f if e[i] > 0 else racc / f)
        rq = racc.GetQuantity()
        # the quantity re-obtained from its own composing units / categories (list form) is the same quantity
        from barril.units import ObtainQuantity

        from collections import OrderedDict

        empty = q.MakeCopy(OrderedDict())
        empty2 = q.CreateCopyInstance(OrderedDict())
        nonfinite = [str(Scalar.CreateWithQuantity(q, f)) for f in (float("inf"), float("-inf"), float("nan"))]
        cu, cc = q.GetComposingUnits(), q.GetComposingCategories()
        again = ObtainQuantity(list(cu), list(cc)) if not isinstance(cu, str) else ObtainQuantity(cu, cc)
        arr = Array.CreateWithQuantity(q, [s.GetValue(), s.GetValue()])
        import pickle

        strings = lambda qq: (qq.GetUnit(), qq.GetCategory(), qq.GetQuantityType(), qq.GetUnitName())  # noqa: E731
        more = {"pickled": [strings(pickle.loads(pickle.dumps(q))), strings(pickle.loads(pickle.dumps(Scalar.CreateWithQuantity(q, 1.5))).GetQuantity())],
                "qpow": [(strings(q ** n), strings((s ** n).GetQuantity())) for n in (1, 2, 3)],
                "qmul": (strings(q * q), strings((s * s).GetQuantity()), strings(q / rq) if False else strings((q * q) / q), strings(((s * s) / s).GetQuantity()))}
        # a SIMPLE operand times / over the derived one (the derived operand is on the right; its first factor is shared, the others are not)
        lead = Scalar(1.0, leaves[present[0]][0])
        more["lead"] = [strings((lead * s).GetQuantity())[:2], strings((lead / s).GetQuantity())[:2], strings((Array([1.0, 1.0], leaves[present[0]][0]) * arr).GetQuantity())[:2]]
        ea, eb, sk = Array.CreateWithQuantity(q, []), Array((), "K"), Scalar(1.0, "K")
        more["empty_ops"] = [(strings((ea * eb).GetQuantity()), strings((s * sk).GetQuantity())), (strings((ea / eb).GetQuantity()), strings((s / sk).GetQuantity())),
                             (strings((eb / ea).GetQuantity()), strings((sk / s).GetQuantity())), (strings((1.0 / ea).GetQuantity()), strings((1.0 / s).GetQuantity())),
                             (strings((ea * ea).GetQuantity()), strings((s * s).GetQuantity())), (str(ea * eb), " [%s]" % (s * sk).GetUnit())]
        return {"more": more, "unit": q.GetUnit(), "cat": q.GetCategory(), "qt": q.GetQuantityType(), "name": q.GetUnitName(), "joined": tuple(q.GetComposingUnitsJoiningExponents()),
                "order": [(leaves[i][0], leaves[i][1], leaves[i][2], e[i]) for i in present], "rev": (rq.GetUnit(), rq.GetCategory(), rq.GetUnitName()),
                "again": (again.GetUnit(), again.GetCategory(), again.GetQuantityType(), again == q), "repr": repr(s),
                "obj_names": (s.GetUnitName(), arr.GetUnitName()), "empty": [(e.GetUnit(), e.GetCategory(), e.GetQuantityType(), e.GetUnitName()) for e in (empty, empty2)],
                "nonfinite": nonfinite, "str": str(s), "arr_repr": repr(arr), "arr_str": str(arr),
                "formatted": s.GetFormatted()}
    if k == "legacy_derived":
        # arithmetic with an operand created through a legacy spelling renders exactly what the current spelling renders
        strings = lambda qq: (qq.GetUnit(), qq.GetCategory(), qq.GetQuantityType(), qq.GetUnitName())  # noqa: E731
        res = []
        for sp in (cfg["leg"], cfg["cur"]):
            s_ = Scalar(2.0, sp)
            m_ = Scalar(1.0, "m")
            res.append([strings(o.GetQuantity()) for o in (s_, s_ * m_, m_ * s_, 1.0 / s_, s_ * s_, m_ / s_, s_ / m_, (s_ * m_) / m_, Array([1.0], sp) * Array([1.0], "m"))])
        return {"legacy": res[0], "current": res[1]}
    if k == "requalified_category":
        from .common import fresh_posc_db, pushed

        sdb = fresh_posc_db()
        e1, e2 = cfg["e"]
        strings = lambda qq: (qq.GetUnit(), qq.GetCategory(), qq.GetQuantityType(), qq.GetUnitName())  # noqa: E731
        with pushed(sdb):
            sdb.AddCategory("c20x", "length")
            (Scalar(1.0, "m", "c20x") * Scalar(1.0, "s")).GetQuantity().GetQuantityType(), sdb.GetCategoryQuantityType("c20x")  # the category is used as a length category
            sdb.AddCategory("c20x", "time", override=True)  # ... and then re-registered for another quantity type
            f1 = _power(Scalar(1.0, "s", "c20x"), e1)
            f2 = _power(Scalar(1.0, "m", "length"), e2)
            acc = (f1 if e1 > 0 else 1.0 / f1)
            acc = acc * f2 if e2 > 0 else acc / f2
            got = strings(acc.GetQuantity())
        want_f = [("c20x", "time", "second", "s", e1), ("length", "length", "metre", "m", e2)]
        return {"got": got, "want": (ref_units([(u_, e_) for _c, _q, _n, u_, e_ in want_f]), ref_makestr([(c_, e_) for c_, _q, _n, _u, e_ in want_f]),
                                     ref_makestr([(q_, e_) for _c, q_, _n, _u, e_ in want_f]), ref_makestr([(n_, e_) for _c, _q, n_, _u, e_ in want_f]))}
    # repeated quantity type under two categories
    a, b, c = cfg["e"]
    u2 = "m" if cfg["same_unit"] else "cm"
    acc = None
    parts = [(Scalar(1.0, "m", "length"), a), (Scalar(1.0, u2, "depth"), b), (Scalar(1.0, "s"), c)]
    if cfg.get("interleave"):
        parts = [parts[0], parts[2], parts[1]]  # the two categories of one quantity type are NOT neighbours in the composing map
    for sc, ex in parts:
        if ex == 0:
            continue
        f = _power(sc, ex)
        if acc is None:
            acc = f if ex > 0 else 1.0 / f
        else:
            acc = acc * f if ex > 0 else acc / f
    if acc is None:
        return {"skip": True}
    q = acc.GetQuantity()
    import pickle

    strings = lambda qq: (qq.GetUnit(), qq.GetCategory(), qq.GetQuantityType(), qq.GetUnitName(), [(cat, ue[0], ue[1]) for cat, ue in qq.GetCategoryToUnitAndExps().items()])  # noqa: E731
    from barril.units import FixedArray

    return {"pickled": [strings(pickle.loads(pickle.dumps(q))), strings(pickle.loads(pickle.dumps(acc)).GetQuantity()),
                        strings(pickle.loads(pickle.dumps(FixedArray.CreateWithQuantity(q, [1.0, 2.0]))).GetQuantity())], "own": strings(q),
            "unit": q.GetUnit(), "cat": q.GetCategory(), "qt": q.GetQuantityType(), "name": q.GetUnitName(), "joined": tuple(q.GetComposingUnitsJoiningExponents()),
            "map": [(cat, ue[0], ue[1]) for cat, ue in q.GetCategoryToUnitAndExps().items()], "repr": repr(acc)}


def props(cfg, T, obs):
    if isinstance(obs, Raised):
        return [("building and rendering a derived quantity does not raise", False)]
    k = cfg["k"]
    if k == "simple":
        return [("a simple quantity's strings are exactly its registered unit, category, quantity type and unit name; repr/str show them", obs["bad"] == [])]
    if obs.get("skip"):
        return []
    if k == "legacy_derived":
        return [("products, quotients and powers of an operand created through a legacy spelling render the strings of the current spelling", obs["legacy"] == obs["current"])]
    if k == "requalified_category":
        return [("after a category is re-registered for another quantity type, new derived quantities over it render its CURRENT quantity type", tuple(obs["got"]) == tuple(obs["want"]))]
    P = []
    joined = tuple((u, e) for u, e in obs["joined"])
    parsed = parse_unit(obs["unit"])
    # the grammar lists numerator factors first: compare as the numerator sequence followed by the denominator sequence
    want_seq = tuple([p for p in joined if p[1] > 0] + [p for p in joined if p[1] < 0])
    P.append(("parsing the unit string recovers exactly the joined composing units and exponents", parsed == want_seq))
    P.append(("the unit string is the reference rendering of the joined composing units", obs["unit"] == ref_units(joined)))
    if k == "derived":
        od = obs["order"]
        P.append(("joined composing units are the factors in construction order with their exponents", joined == tuple((u, e) for u, _c, _n, e in od)))
        P.append(("category string lists every factor with its exponent (' * ', one ' / ')", obs["cat"] == ref_makestr([(c, e) for _u, c, _n, e in od])))
        P.append(("quantity type string likewise", obs["qt"] == ref_makestr([(c, e) for _u, c, _n, e in od])))
        P.append(("unit name string likewise", obs["name"] == ref_makestr([(n, e) for _u, _c, n, e in od])))
        rod = list(reversed(od))
        P.append(("the same factors multiplied in the reverse order render in their own order", obs["rev"] == (ref_units([(u, e) for u, _c, _n, e in rod]),
                                                                                                              ref_makestr([(c, e) for _u, c, _n, e in rod]),
                                                                                                              ref_makestr([(n, e) for _u, _c, n, e in rod]))))
        P.append(("re-obtaining the quantity from its composing units and categories gives the same strings", obs["again"] == (obs["unit"], obs["cat"], obs["qt"], True)))
        m_ = obs["more"]
        own = (obs["unit"], obs["cat"], obs["qt"], obs["name"])
        P.append(("a pickle round trip of the quantity (alone or inside a Scalar) renders the same strings", m_["pickled"] == [own, own]))
        P.append(("Quantity ** n, Quantity * Quantity and Quantity / Quantity render like the quantities of the same Scalar operations",
                  all(a == b for a, b in m_["qpow"]) and m_["qpow"][0][0] == own and m_["qmul"][0] == m_["qmul"][1] and m_["qmul"][2] == m_["qmul"][3]))
        od0 = obs["order"]
        mul_f = [(u, c, e + (1 if i == 0 else 0)) for i, (u, c, _n, e) in enumerate(od0)]
        div_f = [(u, c, (1 if i == 0 else 0) - e) for i, (u, c, _n, e) in enumerate(od0)]
        want_lead = [(ref_units([(u, e) for u, _c, e in f if e != 0]), ref_makestr([(c, e) for _u, c, e in f if e != 0])) for f in (mul_f, div_f, mul_f)]
        P.append(("a simple operand times / over the derived operand: every factor keeps its own exponent (first factor shared, the others not)",
                  [tuple(x) for x in m_["lead"]] == [tuple(x) for x in want_lead]))
        P.append(("products, quotients and reciprocals of EMPTY Arrays render the strings of the same Scalar operations", all(a == b for a, b in m_["empty_ops"])))
        P.append(("GetUnitName() of the value objects is the quantity's unit name", obs["obj_names"] == (obs["name"], obs["name"])))
        P.append(("a copy made with an EMPTY specification is the quantity without factors (all strings empty)", obs["empty"] == [("", "", "", "")] * 2))
        P.append(("auxiliary, concrete (not solver-decided): str() of a Scalar holding inf / -inf / nan still shows the unit", all(t.endswith("[%s]" % obs["unit"]) for t in obs["nonfinite"])))
        u = obs["unit"]
        P.append(("repr/str/GetFormatted of Scalar and Array show the unit", ("'%s'" % u) in obs["repr"] and obs["str"].endswith("[%s]" % u) and obs["formatted"].endswith("[%s]" % u)
                  and obs["arr_repr"].endswith("%s)" % u) and obs["arr_str"].endswith("[%s]" % u)))
        if cfg.get("canary"):
            P.append(("canary:the unit string never contains '.'", "." not in obs["unit"]))
    else:
        mp = obs["map"]
        db = get_db("default")
        per_unit = {}
        for _c, u, e in mp:
            per_unit[u] = per_unit.get(u, 0) + e
        P.append(("joined exponents are the per-unit sums over the categories", dict(joined) == {u: e for u, e in per_unit.items()} and all(e != 0 for _u, e in joined)))
        P.append(("category string lists every category factor", obs["cat"] == ref_makestr([(c, e) for c, _u, e in mp])))
        qts = {}
        for c, _u, e in mp:
            qt = db.GetCategoryQuantityType(c)
            qts[qt] = qts.get(qt, 0) + e
        P.append(("quantity type string sums exponents per quantity type", obs["qt"] == ref_makestr(list(qts.items()))))
        names = {}
        for c, u, e in mp:
            n = db.GetUnitName(db.GetCategoryQuantityType(c), u)
            names[n] = names.get(n, 0) + e
        P.append(("unit name string sums exponents per unit name", obs["name"] == ref_makestr(list(names.items()))))
        P.append(("a pickle round trip (quantity, Scalar, FixedArray) renders the same strings and keeps the per-category factors", obs["pickled"] == [obs["own"]] * 3))
    return P


def finding_key(cfg, name):
    return "%s %s :: %s" % (cfg["k"], cfg.get("e", ""), name)


# ---- CrossHair part -------------------------------------------------------------------------------------------------
def _conditions(tier):
    conds = ["units1", "units2", "units3", "makestr1", "makestr2", "canary_units2"]
    if tier != "quick":
        conds += ["makestr3", "units4", "makestr4"]
    return conds


def run_crosshair(tier):
    src = open(CONTRACTS).read().splitlines()
    lines = {}
    for i, l in enumerate(src):
        m = re.match(r"^def (\w+)\(", l)
        if m:
            lines[m.group(1)] = i + 2
    timeout = 90 if tier == "quick" else 1500
    env = dict(os.environ, PYTHONPATH=check.ROOT + ":/repo/src")
    procs = {}
    for c in _conditions(tier):
        cmd = [sys.executable, "-m", "crosshair", "check", "--report_all", "--per_condition_timeout", str(timeout), "%s:%d" % (CONTRACTS, lines[c])]
        procs[c] = (subprocess.Popen(cmd, stdout=subprocess.PIPE, stderr=subprocess.STDOUT, text=True, env=env), time.time())
    res = {}
    for c, (p, t0) in procs.items():
        try:
            out, _ = p.communicate(timeout=timeout * 3 + 60)
        except subprocess.TimeoutExpired:
            p.kill()
            out = "timeout"
        verdict = "confirmed" if "Confirmed over all paths" in out else "counterexample" if "false when calling" in out else "inconclusive"
        m = re.search(r"false when calling \w+\(([^)]*)\)", out)
        res[c] = {"verdict": verdict, "args": m.group(1) if m else None, "wall_s": round(time.time() - t0, 1), "output": out.strip()[-300:]}
    return res


def replay_counterexample(cond, args):
    """re-run the real renderer (through real Scalars where possible) on the integers CrossHair reported"""
    from barril.units import Scalar

    es = [int(a.split("=")[-1]) for a in args.split(",")]
    units = ["m", "s", "kg"][:len(es)]
    cats = ["length", "time", "mass"][:len(es)]
    acc = None
    for u, e in zip(units, es):
        if e == 0:
            continue
        f = _power(Scalar(1.0, u), e)
        acc = (f if e > 0 else 1.0 / f) if acc is None else (acc * f if e > 0 else acc / f)
    if acc is None:
        return None
    q = acc.GetQuantity()
    pairs = [(u, e) for u, e in zip(units, es) if e]
    if cond.startswith("units"):
        return q.GetUnit() != ref_units(pairs), q.GetUnit(), ref_units(pairs)
    cp = [(c, e) for c, e in zip(cats, es) if e]
    return q.GetCategory() != ref_makestr(cp), q.GetCategory(), ref_makestr(cp)


def main(tier, seed):
    t0 = time.time()
    ch = run_crosshair(tier)
    lines = []
    code = 0
    n_conf = sum(1 for c, r in ch.items() if r["verdict"] == "confirmed")
    canary = ch.pop("canary_units2")
    if canary["verdict"] != "counterexample":
        lines.append("harness-error: CrossHair canary was not refuted (%s)" % canary["verdict"])
        code = 3
    violations = []
    for c, r in ch.items():
        if r["verdict"] == "counterexample":
            rep = replay_counterexample(c, r["args"])
            if rep and rep[0]:
                os.makedirs(os.path.join(check.ROOT, "cases"), exist_ok=True)
                path = os.path.join(check.ROOT, "cases", "C20_crosshair_%s.json" % c)
                json.dump({"property": "C20", "harness": "harness.c20", "crosshair_condition": c, "args": r["args"], "real": rep[1], "reference": rep[2],
                           "cfg": {"k": "derived", "e": ([int(a.split("=")[-1]) for a in r["args"].split(",")] + [0, 0])[:3], "order": 0},
                           "obligation": "the unit string is the reference rendering of the joined composing units" if c.startswith("units") else
                           "category string lists every factor with its exponent (' * ', one ' / ')", "vals": {"x": {"float": "1.0"}}}, open(path, "w"), indent=1)
                violations.append(path)
                lines.append("VIOLATION property=C20 replay=%s" % path)
                lines.append("  case: CrossHair %s(%s): real %r, reference %r" % (c, r["args"], rep[1], rep[2]))
            else:
                lines.append("unreproduced CrossHair counterexample %s(%s)" % (c, r["args"]))
                code = max(code, 3)
        elif r["verdict"] != "confirmed":
            lines.append("inconclusive: CrossHair condition %s: %s" % (c, r["output"][-120:]))
            code = max(code, 2)
    for ln in lines:
        print(ln)
    extra = {"crosshair": {c: {k: v for k, v in r.items() if k != "output"} for c, r in ch.items()}, "crosshair_canary": canary["verdict"],
             "crosshair_conditions_confirmed": n_conf, "crosshair_version": "crosshair-tool 0.0.110"}
    mod = sys.modules[__name__]
    rc = check.drive(mod, tier, seed, extra=extra)
    if violations:
        # make the evidence file reflect the CrossHair violations too
        p = os.path.join(check.ROOT, "evidence", "C20.json")
        ev = json.load(open(p))
        ev["violations"] = ev.get("violations", 0) + len(violations)
        json.dump(ev, open(p, "w"), indent=1)
        return 1
    return max(rc, code) if rc != 1 else 1
