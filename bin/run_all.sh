#!/bin/sh
# runs every claimed check of MANIFEST.json at the given tier, one after the other; prints the summary lines
cd /verif
T=${1:-quick}
for p in $(python3 -c "import json;print(' '.join(c['property_id'] for c in json.load(open('MANIFEST.json'))['checks']))"); do
  s=$(date +%s); out=$(bin/check $p $T 2>&1); rc=$?; e=$(date +%s)
  echo "$p rc=$rc $((e-s))s :: $(echo "$out" | tail -1 | cut -c1-170)"
  echo "$out" | grep -E "^(VIOLATION|KNOWN-FINDING|harness-error|unreproduced|error)" | cut -c1-200 | head -5
done
