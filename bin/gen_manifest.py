#!/usr/bin/env python3
"""Regenerates /verif/MANIFEST.json from the table below (single source of truth)."""
import json
import os

ROOT = os.path.dirname(os.path.dirname(os.path.abspath(__file__)))

SYMX = ("symbolic execution of the real barril functions on z3-backed proxy numbers (symx): one real execution per feasible path, "
        "z3 validity query per path obligation, counterexamples replayed on the real code with plain floats")

CHECKS = {
    "C01": dict(
        text="For every unit, every unit<->base pair (quick) / every ordered pair (thorough) of the three shipped databases, z3 proves for "
             "ALL real amounts that the real to-base/from-base closures are mutually inverse and strictly increasing, that the real "
             "UnitDatabase.Convert returns frombase_v(tobase_u(x)), round-trips and is path-independent, and that u->u returns the same "
             "object. Bounded model checking: the table is enumerated, the amount is universally quantified by the solver.",
        note="floats modelled as exact reals (rounding outside the claim); tolerance 1e-13 relative; shims for float()/math.pow; z3 5.1.0 trusted",
        ref="DESIGN.md §4 C01"),
    "C02": dict(
        text="23 public conversion routes (Scalar/Array/FixedArray/Quantity/UnitDatabase float-int-list-tuple-numpy-exponent branches, "
             "ChangeScalars, UnitSystemManager.ConvertToCurrent/ConvertScalarToCurrent, category defaults) are executed on symbolic amounts; "
             "z3 proves element by element, for ALL reals, that each route returns frombase_v(tobase_u(x)) of the real closures, that container "
             "kind, category and quantity type are preserved and that an object asked for its own unit returns the stored object itself.",
        note="floats as exact reals; numpy float64 arrays modelled as dtype=object arrays of proxies (A-NP); math.pow shimmed with a fresh-root model; "
             "container lengths 0..3; unit pairs enumerated/sampled as stated in evidence.bounds",
        ref="DESIGN.md §4 C02"),
    "C03": dict(
        text="One +/- step from operands that the real operators built (shapes over length/time/mass, exponents -3..3, differing units and "
             "categories on both sides): on every path z3 proves for ALL real leaf amounts that the base-unit magnitude of a+-b equals "
             "mag(a)+-mag(b) under an independent dimensional model, that the result carries the left operand's quantity, that (a+b)-b ~ a "
             "and a+b ~ b+a. Bounded by the enumerated shapes/unit assignments; unbounded in the values.",
        note="floats as exact reals; scale-only units; NRA queries to z3 with 20 s timeout (unknown => exit 2); shims for float()",
        ref="DESIGN.md §4 C03"),
    "C04": dict(
        text="One * / // ** step from operands built by the real operators: on every path the result's exponent vector equals the "
             "sum/difference predicted by dimensional analysis (zero exponents gone, a/a dimensionless, a**n = n-fold) and z3 proves for ALL "
             "real leaf amounts (non-zero divisors) that base-unit magnitudes multiply/divide, a*b ~ b*a, (a*b)/b ~ a, a//b = floor(a/b).",
        note="floats as exact reals; scale-only units; NRA queries to z3 with 20 s timeout (unknown => exit 2); shims for float()",
        ref="DESIGN.md §4 C04"),
    "C08": dict(
        text="Order: for every unit<->base pair (quick) / every ordered unit pair (thorough) of every quantity type the six rich comparisons of Scalar and "
             "FractionScalar run on SYMBOLIC amounts; z3 proves for ALL reals that <,<=,>,>= agree with comparing tobase(amounts), that a>b and b>a never both "
             "hold and a<=b or b<=a; same-unit comparisons over ALL IEEE doubles (NaN). Equality: all ordered pairs of a pool of 50 objects (9 barril "
             "classes in simple/derived/empty/unknown shapes over list/tuple/numpy containers + None/str/int/tuple/float/list): == and != never raise, "
             "are reflexive, symmetric, mutually negated, and equal hashables hash equal (proxy hash = congruence token).",
        note="open known finding: FractionScalar order inside the Fraction.SMALL (1e-8) window of equality - the windowed claims are proved, the strict ones listed",
        ref="DESIGN.md §4 C08"),
    "C09": dict(
        text="For Scalars (simple, affine, derived), Arrays over list/tuple/numpy (simple, derived) and FixedArrays, all ten operators with a plain number on "
             "either side: with a SYMBOLIC python float k and symbolic amounts z3 proves the result value(s) are the operator applied to the value(s), the "
             "result is a barril object of x's class with x's quantity (reciprocal for k/x, k//x). numpy scalar / float64 ndarray k come from a concrete set.",
        note="numpy scalars are C objects and cannot be symbolic (enumerated, stated); float32 k compared with 1e-6 relative tolerance (NEP 50 single precision)",
        ref="DESIGN.md §4 C09"),
    "C10": dict(
        text="Array <op> Array for 10 operand quantities (simple, affine, derived) x 5 operators x 3x3 container kinds x lengths 0..3 with SYMBOLIC elements: "
             "each result element is proved equal to the REAL Scalar operator applied to the corresponding elements in the same run, quantities equal, "
             "container rule kept, unequal lengths rejected on every path; GetValues(unit)/CreateCopy(unit) element-wise equal Scalar.GetValue; "
             "FromScalars then indexing returns the amounts.",
        note="open known finding: numpy broadcasting of a length-1 operand; zero-divisor behaviour of real float64 arrays (inf instead of raising) is outside (A-NP)",
        ref="DESIGN.md §4 C10"),
    "C11": dict(
        text="FixedArray construction routes, CreateWithQuantity and CreateCopy(values) run with the dimension and the container length as "
             "UNBOUNDED symbolic integers: z3 proves on every path that an accepted object has len(values)==dimension>=2 and that rejection "
             "(ValueError) happens exactly when the request would break that. Curve: one SetImage/SetDomain step from an arbitrary curve "
             "satisfying the invariant (symbolic lengths) - an inductive step covering call sequences of any length. Real-list routes "
             "(arithmetic, pickling, ChangingIndex, IndexAsScalar) are enumerated for dimension -1..5(7) x length 0..5(7) with symbolic elements.",
        note="len() shim returns the symbolic length of a stand-in container; int payload leak guarded by a payload check on observables",
        ref="DESIGN.md §4 C11"),
    "C12": dict(
        text="Minimum, maximum and default value go symbolically through the real AddCategory (9 limit configurations), the amounts through the "
             "real CheckValue / Array scan: z3 proves for ALL reals that an object is accepted exactly when every amount converted to the default "
             "unit satisfies the limits, that a rejection names a configured limit that some amount really violates, that repeated verdicts agree "
             "and that every accepted registration has a default unit of the quantity type and a default value within its own limits. In FP mode "
             "(value unit = default unit) the same is proved over ALL IEEE doubles incl. NaN, infinities and -0 (NaN skipped in flat Arrays).",
        note="Real mode: floats as exact reals; FP mode: z3 Float64 comparisons, numpy.isnan shimmed; array lengths 0..3 (quick) / 0..4 (thorough)",
        ref="DESIGN.md §4 C12"),
    "C05": dict(
        text="Incompatible operations (18 kinds: + - < > <= GetValue CreateCopy Convert ObtainQuantity construction, on Scalar/Array/FixedArray/"
             "FractionScalar) over cross-quantity-type unit pairs of the table (legacy spellings of the foreign unit included) and over derived "
             "operands with different exponent vectors run with SYMBOLIC amounts on a fresh database: every path explored via z3 must end in a "
             "units/type error (no value sneaks through), the same call repeated is rejected again, the public registry snapshot and the operands "
             "are unchanged, and a battery of valid operations returns identical terms before and after. Exemptions are asserted to be accepted.",
        note="cross-type pairs: 420 seeded (quick), all 191x190 type pairs with the first unit of each + 3000 seeded (thorough); Unknown type not asserted",
        ref="DESIGN.md §4 C05"),
    "C06": dict(
        text="Every row of the table whose symbol the unit grammar decomposes into registered symbols (about 900) and every SI-prefixed row matched by symbol and "
             "name (about 110): z3 proves for ALL amounts that tobase_named(x)-tobase_named(0) equals x times the product of the components' slopes (times the "
             "numeric multiplier / power of ten) to the precision the table is written in, and that a Scalar built by the REAL * and / operators from Scalars in "
             "the component units has the same base magnitude. 35 rows that genuinely disagree are open known findings keyed by row symbol.",
        note="the quantifier is the table (enumerated exhaustively); the claim per row is linear in the amount (LRA); grammar and prefix list are the oracle's specification",
        ref="DESIGN.md §4 C06"),
    "C07": dict(
        text="Programs over a fresh POSC database obtain quantities through 24 creation requests (all key forms, legacy, alias, unknown captions, "
             "derived dict/list/operator forms), run one (quick) or two (thorough) operations of a 17-operation alphabet with SYMBOLIC amounts - so "
             "every value-dependent path of each step is explored via z3 - and after every step re-check the observable snapshot of every quantity "
             "alive in quantities_cache, identity of repeated requests, ==/!=/hash against a resolution model, copies, pickles and the read-only mutator.",
        note="the state is discrete: the solver contributes path coverage and replayable models; aliasing needing more than two chained operations is outside",
        ref="DESIGN.md §4 C07"),
    "C13": dict(
        text="One step of a 38-operation alphabet (arithmetic, comparison, conversion, validation, formatting, copy, pickle, ChangingIndex, FromScalars, "
             "ConvertFractionValue, ChangeScalars) from a pool of 17 value objects with SYMBOLIC amounts over caller-owned list/tuple/numpy containers: on "
             "every path (failing ones included) z3-explored by the real code, the snapshot of every pool member is unchanged, results are new objects and "
             "copy/deepcopy/CreateCopy()/pickle round trips are equal. Inductive reading: no step mutates any member => no sequence does.",
        note="numpy arrays modelled as object arrays incl. in-place (out=) ufunc semantics; two-step chains in thorough",
        ref="DESIGN.md §4 C13"),
    "C14": dict(
        text="Static: every quantity type, unit and category of the three shipped databases (base unit identity proved for ALL amounts, each unit in exactly one "
             "type in both indexes, categories' default/valid units of their type, default inside limits, every unit and category builds a valid Scalar). "
             "Dynamic: one registration step (46 steps + 10 POSC steps: AddUnitBase/AddUnit/AddCategory with duplicates, foreign and legacy units, override, "
             "from_category, exclusive limits) with SYMBOLIC limits/default from 7 constructed pre-states: accepted exactly when a 3-dict reference model accepts, "
             "well-formed and predicted registry afterwards, identical snapshot after rejection. Two-step histories in thorough.",
        note="discrete dimension enumerated (stated); the solver decides the value-dependent acceptance conditions (limits/default) for all reals",
        ref="DESIGN.md §4 C14"),
    "C15": dict(
        text="Histories query(s) - registration - battery on a warm database (22 read-only/failing queries x 9 accepted/rejected registrations, symbolic amounts and "
             "limits): the public registry snapshot is identical around every query and rejected registration, and every battery answer (value terms, verdicts, "
             "exception class) is proved equal, on every path, to the answer of a database freshly built from the same accepted registrations.",
        note="patterns of length 3 (quick) / 4 (thorough); memo tables are deliberately not part of the snapshot",
        ref="DESIGN.md §4 C15"),
    "C16": dict(
        text="Every legacy spelling derivable (by an independent reference rewriting) from the substitution list for every table unit is pushed through 14 "
             "API entries (ObtainQuantity, Scalar/Array/FixedArray/FractionScalar construction, FromScalars, CreateCopy, GetValue(s), UnitDatabase.Convert on "
             "floats/lists/tuples, GetDefaultCategory, AddCategory valid/default units) on a fresh database with a SYMBOLIC amount: objects must equal the "
             "current-spelling ones and z3 proves the conversions agree for ALL reals; rewriting is idempotent; every one of the current symbols is a fixed point.",
        note="the string dimension is finite and enumerated exhaustively (stated honestly: the solver quantifies only over the amount); idempotence on arbitrary strings not claimed",
        ref="DESIGN.md §4 C16"),
    "C19": dict(
        text="For EVERY unit (with its default category) and EVERY category, the documented construction forms of Scalar, Array, FixedArray and FractionScalar "
             "are built with SYMBOLIC values on a fresh database, in two construction orders (cache history), and must be pairwise ==; forms with every other "
             "category of the quantity type must agree with each other; Scalar(category) == Scalar(default value, default unit, category); eval(repr(s)) == s "
             "with the value printed as a bound identifier (template decided for all values) plus an auxiliary concrete list of hard floats.",
        note="finite quantifier exhausted; values universally quantified by carrying z3 terms through the real constructors and __eq__",
        ref="DESIGN.md §4 C19"),
    "C18": dict(
        text="(a) FractionValue float/order/==/copy and (b) barril Fraction + - * / % neg abs inv and comparisons against exact rational arithmetic: number "
             "parts over ALL reals, numerators/denominators over ALL integers with |.|<=1e9, fractions.Fraction replaced by a representation-agnostic stand-in "
             "(value term + fresh N, D>0 with N=value*D); z3 (NRA/NIA) proves every obligation on every path. (c) FractionScalar.GetValue(v) and the registered "
             "FractionValue conversion equal Convert(u,v,float(value)) up to Fraction's SMALL normalisation, for affine and seeded unit pairs, and FractionScalar "
             "validates like a Scalar of float(value) with a symbolic limit. (d) format/parse and CreateFromFloat: auxiliary concrete grid only.",
        note="sub-clause (d) is NOT decided by the solver (C-level %g, locale, re, str(float)); it is sampled by a labelled auxiliary grid of 444 cases",
        ref="DESIGN.md §4 C18"),
    "C20": dict(
        engine="crosshair+symx",
        technique="CrossHair (z3) symbolic execution of the real renderers with symbolic integer exponents vs a reference renderer; symx driver for the end-to-end part",
        text="CrossHair must report 'Confirmed over all paths' for the real _CreateUnitsWithJoinedExponentsString (k=1,2,3 factors; 4 thorough) and _MakeStr (k=1,2; "
             "3,4 thorough) against a reference renderer for ALL integer exponents in [-4,4]; a canary condition must be refuted. End to end: every exponent "
             "vector in [-4,4]^3 over m, s, kg built by the real operators - the unit string parsed back by an independent grammar parser recovers the joined "
             "composing units, category/type/unit-name strings equal the reference, repeated quantity types under two categories sum correctly, every table unit "
             "as a simple quantity returns its registered strings, repr/str show the unit.",
        note="CrossHair 'Confirmed' is trusted; not-confirmed/timeout is exit 2; counterexamples are replayed through real Scalars before VIOLATION is printed",
        ref="DESIGN.md §4 C20"),
}

ALSO = (" The configurations grew over six rounds of independently seeded changes (histories before the checked call, more container kinds and dtypes, sweeps over the "
        "whole table, IEEE-754 sub-cases, and a few sub-checks on concrete values that are labelled 'auxiliary, concrete (not solver-decided)' in their obligation "
        "text): evidence.bounds lists them completely, DESIGN.md par. 13 says which seeded change each of them answers.")

NOT_APPLICABLE = {
    "C17": "unit-system manager is a discrete registry/callback state machine over dicts keyed by hashed ids with no arithmetic, size or "
           "string-algebra input for a solver to quantify over; CrossHair realises symbolic ids at dict hashing and did not converge; "
           "only concrete enumeration would be possible, which is a different technique (its numeric clause, ConvertToCurrent, is decided under C02)",
}

PENDING_REASON = "check for this property is not built yet in this revision of /verif (work in progress, see DESIGN.md §4)"


def main():
    props = [json.loads(l)["id"] for l in open(os.path.join(ROOT, "properties.jsonl"))]
    checks = []
    for pid in props:
        if pid not in CHECKS:
            continue
        c = CHECKS[pid]
        checks.append({
            "property_id": pid,
            "quick_cmd": "bin/check %s quick" % pid,
            "thorough_cmd": "bin/check %s thorough" % pid,
            "evidence_file": "evidence/%s.json" % pid,
            "replay_cmd_template": "bin/check --replay {path}",
            "engine": c.get("engine", "symx"),
            "level_claimed": {"category": "model_checking", "text": c["text"] + ALSO, "design_ref": c["ref"]},
            "level_note": c["note"],
            "technique": c.get("technique", "bounded symbolic execution of the real Python code with z3 (SMT) per path; counterexample replay"),
        })
    na = []
    for pid in props:
        if pid in CHECKS:
            continue
        na.append({"property_id": pid, "reason": NOT_APPLICABLE.get(pid, PENDING_REASON)})
    man = {
        "version": 1,
        "setup_cmd": "bin/setup.sh",
        "hooks": {
            "guard": "BARRIL_VERIF",
            "enable": "no hook is needed: all instrumentation is harness-side (module-global shims installed by /verif/symx/shims.py at run time)",
            "baseline_off_cmd": "cd /repo && /venv/bin/python -m pytest -ra -q -p no:cacheprovider --timeout=900 --continue-on-collection-errors",
            "source_commits": [],
            "add_only": True,
        },
        "engines": [
            {"name": "symx", "path": "symx/", "serves_properties": [p for p in props if p in CHECKS and CHECKS[p].get("engine", "symx") == "symx"],
             "kind_free_text": SYMX},
            {"name": "crosshair", "path": "harness/c20_contracts.py", "serves_properties": [p for p in props if p in CHECKS and "crosshair" in CHECKS[p].get("engine", "")],
             "kind_free_text": "CrossHair 0.0.110 symbolic execution (z3) of the real string renderers with symbolic integer exponents"},
        ],
        "checks": checks,
        "not_applicable": na,
        "notes": "Exit codes of every check: 0 held on everything explored (KNOWN-FINDING lines allowed), 1 reproduced violation, "
                 "2 inconclusive (budget / solver unknown), 3 harness error. known_findings.json lists open findings and fixed: entries.",
    }
    with open(os.path.join(ROOT, "MANIFEST.json"), "w") as f:
        json.dump(man, f, indent=1)
    print("MANIFEST.json: %d checks, %d not_applicable" % (len(checks), len(na)))


if __name__ == "__main__":
    main()
