#!/bin/sh
# runs every seeded mutant (or only those without recorded results: --new) against its own property's quick check, then thorough if quick misses it
cd /verif
for d in seeded/*/; do
  n=$(basename $d)
  st=$(python3 -c "import json;m=json.load(open('$d/meta.json'));print('neutralised' if m.get('status','').startswith('neutralised') else ('done' if m.get('checks') else 'todo'))")
  [ "$st" = "neutralised" ] && continue
  [ "$1" = "--new" ] && [ "$st" = "done" ] && continue
  out=$(python3 bin/mutant_eval.py run $n quick 2>&1 | tail -1)
  case "$out" in "$n vs "*) echo "$out" | cut -c1-170;; *) echo "$n: ERROR (patch does not apply / harness crashed): $out" | cut -c1-200; continue;; esac
  [ -n "$MATRIX_QUICK_ONLY" ] && continue
  case "$out" in *"exit=1 violations="[1-9]*) ;; *) python3 bin/mutant_eval.py run $n thorough 2>&1 | tail -1 | cut -c1-170;; esac
done
