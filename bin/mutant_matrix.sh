#!/bin/sh
# runs every seeded mutant against its own property's quick check (then thorough if quick misses it); results go to seeded/*/meta.json
cd /verif
for d in seeded/*/; do
  n=$(basename $d)
  st=$(python3 -c "import json;print(json.load(open('$d/meta.json')).get('status','')[:11])")
  [ "$st" = "neutralised" ] && { echo "$n neutralised"; continue; }
  out=$(python3 bin/mutant_eval.py run $n quick 2>&1 | tail -1)
  echo "$out" | cut -c1-150
  case "$out" in *"exit=1 violations="[1-9]*) ;; *) python3 bin/mutant_eval.py run $n thorough 2>&1 | tail -1 | cut -c1-150;; esac
done
