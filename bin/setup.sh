#!/bin/sh
# Builds /verif/.venv: an overlay over /venv (which has barril's deps and the editable barril -> /repo/src)
# plus z3-solver, crosshair-tool and cvc5 from the offline wheelhouse. Idempotent; safe under concurrency.
set -e
V=/verif/.venv
exec 9>/verif/.setup.lock
flock 9
if [ -x "$V/bin/python" ] && "$V/bin/python" -c "import z3, crosshair, barril, numpy" 2>/dev/null; then
  exit 0
fi
rm -rf "$V"
/venv/bin/python -m venv "$V"
SP=$("$V/bin/python" -c "import sysconfig; print(sysconfig.get_paths()['purelib'])")
echo "import site; site.addsitedir('/venv/lib/python3.12/site-packages')" > "$SP/_venv_overlay.pth"
PIP_NO_INDEX=1 "$V/bin/pip" install -q --no-index --find-links /opt/veriftools/wheels z3-solver crosshair-tool cvc5 >/dev/null
"$V/bin/python" -c "import z3, crosshair, barril, numpy; print('setup ok: z3', z3.get_version_string())"
