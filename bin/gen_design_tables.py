#!/usr/bin/env python3
"""Regenerates the generated parts of DESIGN.md (between the BUILT markers): the table of seeded changes and which check
caught them (from seeded/*/meta.json) and the list of fixes / open findings (from known_findings.json)."""
import json
import os
import re

ROOT = os.path.dirname(os.path.dirname(os.path.abspath(__file__)))


def seeded_table():
    rows = []
    for name in sorted(os.listdir(os.path.join(ROOT, "seeded")), key=lambda n: (n.split("-")[0], int(n.split("-")[1]))):
        mp = os.path.join(ROOT, "seeded", name, "meta.json")
        if not os.path.exists(mp):
            continue
        m = json.load(open(mp))
        checks = m.get("checks", {})
        caught = [k for k, r in checks.items() if r.get("exit") == 1 and r.get("violations", 0) > 0]
        missed = [k for k, r in checks.items() if not (r.get("exit") == 1 and r.get("violations", 0) > 0)]
        status = m.get("status", "")
        if status.startswith("neutralised"):
            verdict = "neutralised by a later /repo fix (see meta.json)"
        elif caught:
            first = sorted(caught, key=lambda k: (k.split("/")[1] != "quick", k))[0]
            ob = (checks[first].get("first_case") or "")
            ob = ob.split(" :: ")[1][:90] if " :: " in ob else ob[:90]
            verdict = "caught by %s%s (%s)" % (", ".join(sorted(caught)), "; missed by " + ", ".join(sorted(missed)) if missed else "", ob)
        else:
            verdict = "**not caught** (%s)" % ", ".join(sorted(checks)) if checks else "not evaluated"
        summ = re.sub(r"\s+", " ", m.get("summary", ""))[:150]
        needs = re.sub(r"\s+", " ", m.get("needs", ""))[:110]
        rows.append("| %s | %s | %s | %s |" % (name, summ.replace("|", "/"), needs.replace("|", "/"), verdict.replace("|", "/")))
    head = "| seeded change | what was changed | what it needs to manifest | result |\n|---|---|---|---|\n"
    return head + "\n".join(rows)


def findings():
    d = json.load(open(os.path.join(ROOT, "known_findings.json")))
    fixed = [f for f in d["findings"] if f["status"] == "fixed"]
    opn = [f for f in d["findings"] if f["status"] == "open"]
    out = ["**Repaired (`fix:` commits in /repo; entries `fixed:` in known_findings.json suppress nothing):**", ""]
    seen = set()
    for f in fixed:
        key = (f.get("commit"), f["what"])
        if key in seen:
            continue
        seen.add(key)
        out.append("* %s `%s` - %s" % (f["property"], f.get("commit", "?"), f["what"]))
    out += ["", "**Open known findings (printed as KNOWN-FINDING, exit 0; anything else of the same property is still a VIOLATION):**", ""]
    byp = {}
    for f in opn:
        byp.setdefault(f["property"], []).append(f)
    for p, fs in sorted(byp.items()):
        if len(fs) > 6:
            out.append("* %s - %d entries keyed by table row, e.g. `%s`: %s" % (p, len(fs), fs[0]["key"], fs[0]["what"][:200]))
            out.append("  rows: " + ", ".join(re.sub(r"^table row (.*) disagrees.*$", r"\1", f["key"]) for f in fs))
        else:
            for f in fs:
                out.append("* %s `%s` - %s" % (p, f["key"][:110], f["what"][:400]))
    return "\n".join(out)


def main():
    p = os.path.join(ROOT, "DESIGN.md")
    s = open(p).read()
    for tag, text in (("SEEDED", seeded_table()), ("FINDINGS", findings())):
        b, e = "<!-- %s:BEGIN -->" % tag, "<!-- %s:END -->" % tag
        if b in s:
            s = s[: s.index(b) + len(b)] + "\n" + text + "\n" + s[s.index(e):]
    open(p, "w").write(s)
    print("DESIGN.md tables regenerated")


if __name__ == "__main__":
    main()
