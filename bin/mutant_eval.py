#!/usr/bin/env python3
"""Confirm a seeded change and run the checks against it.

usage: mutant_eval.py import <PID> <agent_seeded_dir>      # copy seeded/k -> /verif/seeded/<PID>-<n>/ after confirming it
       mutant_eval.py run <PID>-<n> [quick|thorough] [other PIDs...]   # apply to /repo, run check(s), undo

Confirmation happens in a scratch worktree under /var/tmp (removed afterwards): the patch applies to /repo's HEAD, the
322 tests still pass with it, demo.py fails with it and passes without it.
"""
import json
import os
import shutil
import subprocess
import sys
import time

ROOT = "/verif"
PY = "/venv/bin/python"


def sh(cmd, cwd=None, env=None, timeout=1800):
    e = dict(os.environ)
    if env:
        e.update(env)
    p = subprocess.run(cmd, shell=True, cwd=cwd, env=e, stdout=subprocess.PIPE, stderr=subprocess.STDOUT, text=True, timeout=timeout)
    return p.returncode, p.stdout


def confirm(patch, demo):
    wt = "/var/tmp/mutwt_%d" % os.getpid()
    sh("git -C /repo worktree remove --force %s" % wt)
    rc, out = sh("git -C /repo worktree add -q %s HEAD" % wt)
    assert rc == 0, out
    res = {}
    try:
        env = {"PYTHONPATH": wt + "/src", "PYTHONDONTWRITEBYTECODE": "1"}
        rc, out = sh("%s %s" % (PY, demo), cwd=wt, env=env)
        res["demo_without_patch_rc"] = rc
        rc, out = sh("git apply --whitespace=nowarn %s || git apply --3way --whitespace=nowarn %s" % (patch, patch), cwd=wt)
        res["applies"] = rc == 0
        if rc != 0:
            res["apply_output"] = out[-500:]
            return res
        rc, out = sh("%s -m pytest -q -p no:cacheprovider 2>&1 | tail -3" % PY, cwd=wt, env=env)
        res["tests_tail"] = out.strip().splitlines()[-1] if out.strip() else ""
        res["tests_pass"] = "322 passed" in out and "failed" not in out
        rc, out = sh("%s %s" % (PY, demo), cwd=wt, env=env)
        res["demo_with_patch_rc"] = rc
        res["demo_with_patch_tail"] = out.strip()[-300:]
    finally:
        sh("git -C /repo worktree remove --force %s" % wt)
        shutil.rmtree(wt, ignore_errors=True)
    res["confirmed"] = bool(res.get("applies") and res.get("tests_pass") and res.get("demo_without_patch_rc") == 0 and res.get("demo_with_patch_rc", 0) != 0)
    return res


def cmd_import(pid, src):
    out = []
    for k in sorted(os.listdir(src)):
        d = os.path.join(src, k)
        if not os.path.isfile(os.path.join(d, "patch.diff")):
            continue
        res = confirm(os.path.join(d, "patch.diff"), os.path.join(d, "demo.py"))
        n = 1
        while os.path.exists(os.path.join(ROOT, "seeded", "%s-%d" % (pid, n))):
            n += 1
        name = "%s-%d" % (pid, n)
        if not res["confirmed"]:
            print("NOT CONFIRMED %s/%s: %s" % (src, k, json.dumps(res)))
            continue
        dst = os.path.join(ROOT, "seeded", name)
        os.makedirs(dst)
        shutil.copy(os.path.join(d, "patch.diff"), dst)
        shutil.copy(os.path.join(d, "demo.py"), dst)
        meta = {}
        try:
            meta = json.load(open(os.path.join(d, "meta.json")))
        except Exception as e:  # noqa
            meta = {"summary": "(agent meta unreadable: %s)" % e}
        meta["property"] = pid
        meta["origin"] = "independent sub-agent given only the property text and a scratch worktree"
        meta["confirmed"] = res
        meta["confirmed_how"] = ("scratch worktree of /repo HEAD under /var/tmp: git apply patch.diff; pytest -q (322 passed); "
                                 "demo.py exits non-zero with the patch and 0 without; worktree removed")
        json.dump(meta, open(os.path.join(dst, "meta.json"), "w"), indent=1)
        print("imported %s: %s" % (name, meta.get("summary", "")[:150]))
        out.append(name)
    return out


def cmd_run(name, tier="quick", pids=None):
    d = os.path.join(ROOT, "seeded", name)
    meta = json.load(open(os.path.join(d, "meta.json")))
    pids = pids or [meta["property"]]
    rc, out = sh("git -C /repo status --porcelain")
    assert out.strip() == "", "/repo is dirty: %s" % out
    rc, out = sh("git -C /repo apply --whitespace=nowarn %s/patch.diff || git -C /repo apply --3way --whitespace=nowarn %s/patch.diff" % (d, d))
    results = {}
    saved = {}
    for pid in pids:  # a run against a seeded change must not leave ITS evidence behind
        ep = os.path.join(ROOT, "evidence", "%s.json" % pid)
        saved[ep] = open(ep).read() if os.path.exists(ep) else None
    try:
        assert rc == 0, out
        for pid in pids:
            t = time.time()
            rc, out = sh("bin/check %s %s" % (pid, tier), cwd=ROOT)
            viol = [l for l in out.splitlines() if l.startswith("VIOLATION")]
            cases = [l.strip() for l in out.splitlines() if l.startswith("  case:")]
            results[pid] = {"tier": tier, "exit": rc, "violations": len(viol), "first_case": cases[0][:300] if cases else None,
                            "summary": out.strip().splitlines()[-1][:300] if out.strip() else "", "wall_s": round(time.time() - t, 1)}
            print("%s vs %s [%s]: exit=%d violations=%d %s" % (name, pid, tier, rc, len(viol), (cases[0][:160] if cases else "")))
    finally:
        sh("git -C /repo reset -q HEAD; git -C /repo checkout -- .")
        sh("rm -rf /verif/cases")
        for ep, txt in saved.items():
            if txt is not None:
                open(ep, "w").write(txt)
            elif os.path.exists(ep):
                os.remove(ep)
    meta.setdefault("checks", {})
    for pid, r in results.items():
        meta["checks"]["%s/%s%s" % (pid, tier, "@seed" + os.environ["VERIF_SEED"] if os.environ.get("VERIF_SEED") else "")] = r
    meta["caught"] = any(r["exit"] == 1 and r["violations"] > 0 for r in meta["checks"].values())
    json.dump(meta, open(os.path.join(d, "meta.json"), "w"), indent=1)
    return results


def cmd_rebase(name, new_patch):
    """store a patch that was re-created by hand on the current HEAD (the original no longer applies after a /repo fix), after re-confirming it"""
    d = os.path.join(ROOT, "seeded", name)
    res = confirm(new_patch, os.path.join(d, "demo.py"))
    print(json.dumps(res)[:600])
    if not res["confirmed"]:
        print("NOT CONFIRMED")
        return 1
    if not os.path.exists(os.path.join(d, "patch.orig.diff")):
        shutil.copy(os.path.join(d, "patch.diff"), os.path.join(d, "patch.orig.diff"))
    shutil.copy(new_patch, os.path.join(d, "patch.diff"))
    meta = json.load(open(os.path.join(d, "meta.json")))
    rc, head = sh("git -C /repo rev-parse --short HEAD")
    meta["rebased"] = "the agent's patch (patch.orig.diff) no longer applies after later fix: commits in /repo; the same change was re-created by hand on %s and re-confirmed" % head.strip()
    meta["confirmed"] = res
    json.dump(meta, open(os.path.join(d, "meta.json"), "w"), indent=1)
    print("rebased", name)
    return 0


def cmd_applies():
    """which stored patches still apply cleanly to /repo HEAD (in a scratch worktree)"""
    wt = "/var/tmp/mutwt_applies_%d" % os.getpid()
    sh("git -C /repo worktree remove --force %s" % wt)
    rc, out = sh("git -C /repo worktree add -q %s HEAD" % wt)
    assert rc == 0, out
    bad = []
    try:
        for name in sorted(os.listdir(os.path.join(ROOT, "seeded"))):
            p = os.path.join(ROOT, "seeded", name, "patch.diff")
            rc, out = sh("git apply --whitespace=nowarn %s || git apply --3way --whitespace=nowarn %s" % (p, p), cwd=wt)
            if rc != 0 or "with conflicts" in out:
                bad.append(name)
            sh("git reset -q HEAD; git checkout -- .", cwd=wt)
    finally:
        sh("git -C /repo worktree remove --force %s" % wt)
        shutil.rmtree(wt, ignore_errors=True)
    print("patches that no longer apply:", bad)


if __name__ == "__main__":
    if sys.argv[1] == "import":
        cmd_import(sys.argv[2], sys.argv[3])
    elif sys.argv[1] == "rebase":
        sys.exit(cmd_rebase(sys.argv[2], sys.argv[3]))
    elif sys.argv[1] == "applies":
        cmd_applies()
    else:
        tier = sys.argv[3] if len(sys.argv) > 3 else "quick"
        cmd_run(sys.argv[2], tier, sys.argv[4:] or None)
