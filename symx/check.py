"""Generic driver: explores a harness symbolically, discharges obligations with z3, replays every
counterexample against the real code with plain floats, applies known findings, writes evidence.

A harness module provides
    PID, FUNCTIONS, BOUNDS, ASSUMPTIONS
    items(tier, seed) -> list of JSON-able configurations (the enumerated dimension)
    inputs(cfg)       -> dict name -> kind ('real' | 'fp' | 'int')       (the symbolic dimension)
    run(cfg, V)       -> observables; real barril calls; V maps name -> proxy (symbolic run) or
                         plain float/int (replay).  May raise: the exception is the observable.
    props(cfg, T, obs)-> list of (name, z3 Bool | bool); T maps name -> z3 term of the input.
                         Names starting with 'canary:' MUST be refuted and replayed (anti-vacuity).
    finding_key(cfg, name) -> str used to match known_findings.json (optional)
    precondition(cfg, T) -> z3 Bool assumed on the inputs (optional)
"""
import hashlib
import json
import multiprocessing
import os
import random
import sys
import time
import traceback
from fractions import Fraction

import z3

from . import core, shims
from .core import Abort, HarnessError, SymFP, SymInt, SymReal, rv

ROOT = os.path.dirname(os.path.dirname(os.path.abspath(__file__)))
EXIT_OK, EXIT_VIOLATION, EXIT_INCONCLUSIVE, EXIT_HARNESS = 0, 1, 2, 3
ROBUST_FACTORS = [10**6, 10**3, 10]
ITEM_BUDGET_S = 180  # wall-clock budget of one configuration (all its paths, obligations and replays)
OBLIG_TIMEOUT_MS = int(os.environ.get("VERIF_OBLIG_TIMEOUT_MS", "20000"))
XCHECK_RATE = float(os.environ.get("VERIF_XCHECK_RATE", "0.02"))  # thorough tier: share of solver-discharged obligations re-decided by cvc5
XCHECK_CAP = int(os.environ.get("VERIF_XCHECK_CAP", "60"))  # per worker chunk


class Raised:
    """Observable standing for 'the real code raised this exception on this path'."""

    def __init__(self, exc):
        self.exc = exc
        self.type = type(exc)
        self.name = type(exc).__name__

    def isa(self, *classes):
        return isinstance(self.exc, classes)

    def __repr__(self):
        return "Raised(%s: %s)" % (self.name, str(self.exc)[:80])


def raised(obs, *classes):
    if not isinstance(obs, Raised):
        return False
    return obs.isa(*classes) if classes else True


def make_inputs(spec):
    V, T = {}, {}
    for name, kind in spec.items():
        if kind == "real":
            t = z3.Real(name)
            V[name] = SymReal(t)
        elif kind == "fp":
            t = z3.FP(name, core.F64)
            V[name] = SymFP(t)
        elif kind == "int":
            t = z3.Int(name)
            V[name] = SymInt(t)
        else:
            raise HarnessError("unknown input kind %r" % kind)
        T[name] = t
    return V, T


def model_value(m, t, kind):
    v = m.eval(t, model_completion=True)
    if kind == "real":
        if z3.is_algebraic_value(v):
            v = v.approx(30)
        return Fraction(v.numerator_as_long(), v.denominator_as_long())
    if kind == "int":
        return v.as_long()
    if kind == "fp":
        if z3.fpIsNaN(v) is not None and z3.is_true(z3.simplify(z3.fpIsNaN(v))):
            return float("nan")
        if z3.is_true(z3.simplify(z3.fpIsInf(v))):
            return float("-inf") if z3.is_true(z3.simplify(z3.fpIsNegative(v))) else float("inf")
        s = z3.simplify(z3.fpToReal(v))
        f = float(Fraction(s.numerator_as_long(), s.denominator_as_long()))
        if f == 0.0 and z3.is_true(z3.simplify(z3.fpIsNegative(v))):
            return -0.0
        return f
    raise HarnessError(kind)


def concrete_inputs(spec, vals):
    Vc, Tc = {}, {}
    for name, kind in spec.items():
        x = vals[name]
        if kind == "real":
            f = float(x)
            Vc[name] = f
            Tc[name] = rv(f)
        elif kind == "int":
            Vc[name] = int(x)
            Tc[name] = z3.IntVal(int(x))
        else:
            f = float(x)
            Vc[name] = f
            Tc[name] = z3.FPVal(f, core.F64)
    return Vc, Tc


def vals_to_json(vals):
    out = {}
    for k, v in vals.items():
        if isinstance(v, Fraction):
            out[k] = {"frac": [str(v.numerator), str(v.denominator)], "float": repr(float(v))}
        elif isinstance(v, float):
            out[k] = {"float": repr(v)}
        else:
            out[k] = {"int": str(v)}
    return out


def vals_from_json(d):
    out = {}
    for k, v in d.items():
        if "frac" in v:
            out[k] = Fraction(int(v["frac"][0]), int(v["frac"][1]))
        elif "int" in v:
            out[k] = int(v["int"])
        else:
            out[k] = float(v["float"])
    return out


def run_concrete(mod, cfg, Vc):
    try:
        return mod.run(cfg, Vc)
    except (Abort, HarnessError, KeyboardInterrupt, SystemExit, MemoryError):
        raise
    except BaseException as e:  # noqa
        return Raised(e)


def eval_prop_concrete(mod, cfg, spec, vals, name):
    """True = property holds on the concrete run, False = violated, None = could not evaluate."""
    Vc, Tc = concrete_inputs(spec, vals)
    old = core.get_tau()
    core.set_tau(core.TAU / 2)
    try:
        obs = run_concrete(mod, cfg, Vc)
        try:
            for n, P in mod.props(cfg, Tc, obs):
                if n == name:
                    if isinstance(P, bool):
                        return P
                    s = z3.simplify(P)
                    if z3.is_true(s):
                        return True
                    if z3.is_false(s):
                        return False
                    sv = z3.Solver()
                    sv.add(z3.Not(P))
                    r = sv.check()
                    return {z3.unsat: True, z3.sat: False}.get(r)
        except HarnessError:
            return None
        return None  # obligation not generated on the concrete path
    finally:
        core.set_tau(old)


class Stats:
    FIELDS = ["items", "paths", "paths_raised", "obligations", "simp", "unsat", "sat", "unknown", "feas_queries",
              "feas_unknown", "inconclusive_items", "canary_ok", "canary_bad", "tv_samples", "tv_leaves", "tv_bad", "transitions", "replayed", "x_checked", "x_agree", "x_unknown", "x_disagree"]

    def __init__(self):
        for f in self.FIELDS:
            setattr(self, f, 0)
        self.solver_s = 0.0
        self.hashes = set()
        self.known_seen = {}
        self.state_hashes = set()
        self.failures = []
        self.unreproduced = []
        self.samples = []
        self.errors = []
        self.notes = []

    def merge(self, o):
        for f in self.FIELDS:
            setattr(self, f, getattr(self, f) + getattr(o, f))
        self.solver_s += o.solver_s
        self.hashes |= o.hashes
        self.state_hashes |= o.state_hashes
        self.failures += o.failures
        self.unreproduced += o.unreproduced
        if len(self.samples) < 12:
            self.samples += o.samples[: 12 - len(self.samples)]
        self.errors += o.errors
        self.notes += o.notes


def _prop_by_name(mod, cfg, T, obs, name):
    for n, P in mod.props(cfg, T, obs):
        if n == name:
            return P
    return None


def cvc5_verdict(smt2_text, timeout_ms=8000):
    """second solver: re-decide an exported obligation with the cvc5 python wheel (one fresh solver per query)"""
    try:
        import cvc5
    except ImportError:
        return "unavailable"
    try:
        slv = cvc5.Solver()
        slv.setOption("tlimit-per", str(timeout_ms))
        slv.setLogic("ALL")
        prs = cvc5.InputParser(slv)
        prs.setStringInput(cvc5.InputLanguage.SMT_LIB_2_6, smt2_text, "obligation")
        sm = prs.getSymbolManager()
        res = "unknown"
        while True:
            cmd = prs.nextCommand()
            if cmd.isNull():
                break
            out = str(cmd.invoke(slv, sm)).strip()
            if out in ("sat", "unsat", "unknown"):
                res = out
        return res
    except Exception as e:  # noqa - any parser/solver error is inconclusive, never a verdict
        return "error:%s" % type(e).__name__


MAX_RETRIES_PER_WORKER = 6  # (retries exist for the rare slow non-linear query; a run full of hard queries must not triple its time)
_RETRIES = [0]


def _solve(pc, negP, timeout_ms):
    s = z3.Solver()
    s.set("timeout", timeout_ms)
    s.add(*pc)
    s.add(negP)
    t = time.time()
    r = s.check()
    if r == z3.unknown and _RETRIES[0] < MAX_RETRIES_PER_WORKER:
        _RETRIES[0] += 1
        # the first attempt ran into its time limit (non-linear arithmetic is sensitive to the search order): two more attempts with other seeds, then the second solver;
        # only 'unsat' is taken over from a retry (a 'sat' still needs the model of THIS solver object for the replay)
        for seed_ in (7, 23):
            s2 = z3.Solver()
            s2.set("timeout", timeout_ms)
            s2.set("random_seed", seed_)
            s2.add(*pc)
            s2.add(negP)
            r2 = s2.check()
            if r2 != z3.unknown:
                return r2, s2, time.time() - t
        if cvc5_verdict(s.to_smt2(), timeout_ms) == "unsat":
            return z3.unsat, s, time.time() - t
    return r, s, time.time() - t


NICE = [1, 2, 10, -1, 100, 0, -40, 1000, 3, 5, 7]


def _nice_model(pc, negP, T, spec, model, st):
    """Prefer a readable counterexample: small integers for the real inputs, if one exists."""
    reals = [n for n in spec if spec[n] == "real"]
    if not reals:
        return model
    # generic model first: pairwise distinct, non-zero amounts (a mutation that writes x over x is invisible on replay)
    s = z3.Solver()
    s.set("timeout", 2000)
    s.add(*pc)
    s.add(negP)
    s.add(z3.Distinct(*[T[n] for n in reals]) if len(reals) > 1 else T[reals[0]] != 0)
    for i, n in enumerate(reals):
        s.add(z3.Or(T[n] == i + 2, T[n] == -(i + 2), T[n] == (i + 2) * 10 + 1, T[n] * 4 == 2 * i + 1))
    t = time.time()
    r = s.check()
    st.solver_s += time.time() - t
    if r == z3.sat:
        return s.model()
    if len(reals) > 6:
        return model
    s = z3.Solver()
    s.set("timeout", 1500)
    s.add(*pc)
    s.add(negP)
    for n in reals:
        s.add(z3.Or(*[T[n] == v for v in NICE]))
    t = time.time()
    r = s.check()
    st.solver_s += time.time() - t
    return s.model() if r == z3.sat else model


def process_item(mod, cfg, st, rng, tier):
    spec = mod.inputs(cfg)
    V, T = make_inputs(spec)
    eng = core.Engine(query_timeout_ms=int(os.environ.get("VERIF_FEAS_TIMEOUT_MS", "5000")),
                      max_paths=getattr(mod, "MAX_PATHS", 3000))
    pre = mod.precondition(cfg, T) if hasattr(mod, "precondition") else None

    def body():
        if pre is not None:
            core.ENG.assume(pre)
        return mod.run(cfg, V)

    sf = mod.std_fraction(cfg) if hasattr(mod, "std_fraction") else getattr(mod, "STD_FRACTION", None)
    with shims.installed(std_fraction=sf):
        try:
            paths = eng.explore(body)
        except Abort as e:
            st.inconclusive_items += 1
            st.notes.append("inconclusive %s: %s" % (json.dumps(cfg)[:200], e))
            return
        finally:
            st.feas_queries += eng.n_feas_queries
            st.feas_unknown += eng.n_feas_unknown
            st.solver_s += eng.solver_s
    st.items += 1
    st.paths += len(paths)
    tv_every = getattr(mod, "TV_EVERY", 7)
    for p in paths:
        obs = Raised(p.exc) if p.exc is not None else p.out
        if p.exc is not None:
            st.paths_raised += 1
        pl = mod.props(cfg, T, obs)
        pc_s = " ".join(c.sexpr() for c in p.pc)
        cfg_s = json.dumps(cfg, sort_keys=True)
        st.state_hashes.add(hashlib.blake2b((cfg_s + pc_s).encode(), digest_size=8).digest())
        st.transitions += len(p.decisions) + p.syntactic
        for name, P in pl:
            st.obligations += 1
            is_canary = name.startswith("canary:")
            if isinstance(P, bool):
                P = z3.BoolVal(P)
            Ps = z3.simplify(P)
            if z3.is_true(Ps):
                st.simp += 1
                if len(st.samples) < 2 and (p.pc or p.syntactic) and not is_canary:
                    st.samples.append({"cfg": cfg, "obligation": name, "path_condition": [str(c)[:300] for c in p.pc][:8],
                                       "claim": str(P)[:300], "verdict": "closed by the simplifier: the claim reduces to true for all values on this path",
                                       "symbolic_comparisons_on_path": p.syntactic})
                if p.pc or p.syntactic:  # decided on a value-dependent path, or the real code compared symbolic terms on the way
                    st.hashes.add(hashlib.blake2b((cfg_s + pc_s + "=>" + name).encode(), digest_size=8).digest())
                continue  # (a canary may hold on SOME paths; the run needs at least one refuted+replayed canary)
            h = hashlib.blake2b((cfg_s + pc_s + "=>" + name + Ps.sexpr()).encode(), digest_size=8).digest()
            st.hashes.add(h)
            r, s, dt = _solve(p.pc, z3.Not(P), OBLIG_TIMEOUT_MS)
            st.solver_s += dt
            if tier == "thorough" and r in (z3.unsat, z3.sat) and rng.random() < XCHECK_RATE and st.x_checked < XCHECK_CAP:
                st.x_checked += 1
                v2 = cvc5_verdict(s.to_smt2())
                if v2 == str(r):
                    st.x_agree += 1
                elif v2 in ("sat", "unsat"):
                    st.x_disagree += 1
                    st.errors.append("solver disagreement: z3 %s, cvc5 %s on %s %s" % (r, v2, name, json.dumps(cfg)[:200]))
                else:
                    st.x_unknown += 1
            if len(st.samples) < 4 and not is_canary and r == z3.unsat:
                st.samples.append({"cfg": cfg, "obligation": name, "path_condition": [str(c)[:300] for c in p.pc][:8],
                                   "claim": str(Ps)[:600], "verdict": "unsat(negation)", "solver_s": round(dt, 4)})
            if r == z3.unsat:
                st.unsat += 1
                continue
            if r == z3.unknown:
                st.unknown += 1
                st.notes.append("unknown: %s %s" % (name, json.dumps(cfg)[:200]))
                continue
            st.sat += 1
            fkey = mod.finding_key(cfg, name) if hasattr(mod, "finding_key") else name
            if fkey in KNOWN_KEYS.get(mod.PID, ()) and not is_canary:
                st.known_seen[fkey] = st.known_seen.get(fkey, 0) + 1
                if st.known_seen[fkey] > 3:
                    continue  # an open known finding: the first occurrences are replayed, the rest only counted
            # robust counterexample: prefer a model that violates the claim with a large margin
            model = s.model()
            P2, r2 = None, None
            for f in ROBUST_FACTORS:
                core.set_tau(core.TAU * f)
                try:
                    P2 = _prop_by_name(mod, cfg, T, obs, name)
                finally:
                    core.set_tau(core.TAU)
                if P2 is None or isinstance(P2, bool):
                    break
                r2, s2, dt2 = _solve(p.pc, z3.Not(P2), OBLIG_TIMEOUT_MS // 2)
                st.solver_s += dt2
                if r2 == z3.sat:
                    model = s2.model()
                    break
            model = _nice_model(p.pc, z3.Not(P2 if (P2 is not None and not isinstance(P2, bool) and r2 == z3.sat) else P), T, spec, model, st)
            vals = {n: model_value(model, T[n], spec[n]) for n in spec}
            verdict = None
            st.replayed += 1
            try:
                verdict = eval_prop_concrete(mod, cfg, spec, vals, name)
            except HarnessError as e:
                st.notes.append("replay harness error: %s" % e)
            rec = {"cfg": cfg, "obligation": name, "vals": vals_to_json(vals),
                   "key": mod.finding_key(cfg, name) if hasattr(mod, "finding_key") else "%s" % name,
                   "claim": str(Ps)[:400]}
            if is_canary:
                if verdict is False:
                    st.canary_ok += 1
                else:
                    st.canary_bad += 1  # e.g. a boundary model that float rounding flips; the run needs >= 1 good canary
                continue
            if verdict is False:
                st.failures.append(rec)
            elif fkey in KNOWN_KEYS.get(mod.PID, ()):
                st.notes.append("known finding %s: a boundary model did not survive float replay (not counted)" % fkey[:80])
            else:
                # the model did not reproduce THIS obligation on plain floats (e.g. the symbolic path ended at a C boundary inside the changed code); the
                # same concrete run is still an ordinary test of every other obligation: one that fails there is a replayed counterexample in its own right
                other = []
                try:
                    Vc_, Tc_ = concrete_inputs(spec, vals)
                    names_ = [n_ for n_, _P in mod.props(cfg, Tc_, run_concrete(mod, cfg, Vc_)) if not n_.startswith("canary:") and n_ != name]
                    other = [n_ for n_ in names_ if eval_prop_concrete(mod, cfg, spec, vals, n_) is False]
                except (HarnessError, Exception):  # noqa
                    other = []
                if other:
                    for n_ in other:
                        k_ = mod.finding_key(cfg, n_) if hasattr(mod, "finding_key") else n_
                        if k_ in KNOWN_KEYS.get(mod.PID, ()):
                            continue
                        st.failures.append({"cfg": cfg, "obligation": n_, "vals": vals_to_json(vals), "key": k_, "claim": "(concrete run of the model found for: %s)" % name[:120]})
                    continue
                rec["replay"] = repr(verdict)
                st.unreproduced.append(rec)
        # translator validation on a seeded sample of paths
        if p.exc is None and rng.random() < 1.0 / tv_every:
            try:
                translator_validate(mod, cfg, spec, T, p, st)
            except HarnessError as e:
                st.notes.append("tv skipped: %s" % e)


def _leaves(o, acc):
    if isinstance(o, (SymReal, SymInt)):
        acc.append(o)
    elif isinstance(o, (int, float)) and not isinstance(o, bool):
        acc.append(o)
    elif isinstance(o, dict):
        for k in o:
            _leaves(o[k], acc)
    elif isinstance(o, (list, tuple)):
        for x in o:
            _leaves(x, acc)
    elif hasattr(o, "dtype") and hasattr(o, "tolist"):
        if getattr(o, "ndim", 0) == 0:
            _leaves(o.tolist() if o.dtype != object else o.item(), acc)
        else:
            for x in o.tolist() if o.dtype != object else list(o):
                _leaves(x, acc)
    return acc


def translator_validate(mod, cfg, spec, T, p, st):
    """Evaluate the symbolic observables under a model of the path and compare with the real code
    run on the corresponding plain floats (not a deciding step; guards the proxies)."""
    if any(k == "fp" for k in spec.values()):
        return
    s = z3.Solver()
    s.set("timeout", 3000)
    s.add(*p.pc)
    # push the model away from every branch boundary so that float rounding keeps the run on the same path
    eps = rv(Fraction(1, 10**6))
    for a, b in _cmp_atoms(p.pc):
        s.add(z3.Or(a - b > eps, b - a > eps))
    for n, k in spec.items():
        if k == "real":
            s.add(T[n] * 7 != z3.ToReal(z3.ToInt(T[n] * 7)))
    if s.check() != z3.sat:
        return  # e.g. the path requires an exact equality: nothing robust to compare
    m = s.model()
    vals = {n: model_value(m, T[n], spec[n]) for n in spec}
    Vc, _ = concrete_inputs(spec, vals)
    obs_c = run_concrete(mod, cfg, Vc)
    if isinstance(obs_c, Raised):
        return
    sym_leaves = _leaves(p.out, [])
    con_leaves = _leaves(obs_c, [])
    if len(sym_leaves) != len(con_leaves):
        return  # float rounding moved the run onto another path
    st.tv_samples += 1
    subst = [(T[n], rv(Fraction(Vc[n])) if spec[n] == "real" else z3.IntVal(Vc[n])) for n in spec]
    # cancellation in a sum makes the float result inexact relative to ITSELF; compare relative to the largest magnitude in play
    big = max([abs(float(b)) for b in con_leaves if isinstance(b, (int, float)) and b == b and abs(b) != float("inf")]
              + [abs(float(v)) for v in Vc.values()] + [0.0])
    path_scale = max([_numeral_scale(core.term(a)) for a in sym_leaves if core.is_sym(a)] + [1.0])
    for a, b in zip(sym_leaves, con_leaves):
        if not core.is_sym(a):
            continue
        e = core.term(a)
        fresh_free = [v for v in _free_vars(e) if v.decl().name() not in spec]
        if fresh_free or "to_int" in e.sexpr():
            continue  # fresh roots have no closed form; floor is discontinuous, so float rounding may legitimately flip it
        v = z3.simplify(z3.substitute(e, *subst))
        if not z3.is_rational_value(v):
            continue
        exact = float(Fraction(v.numerator_as_long(), v.denominator_as_long()))
        st.tv_leaves += 1
        if isinstance(b, float) and (b != b or abs(b) == float("inf")):
            continue
        # cancellation against a large constant (an affine offset expressed in a tiny unit) loses digits in floats: allow eps x the
        # product of the magnitudes of the numerals in the terms of this path (translator validation guards the proxies, it is not a deciding step)
        if abs(exact - float(b)) > 1e-9 * (abs(exact) + abs(float(b)) + big) + 1e-12 + 1e-15 * path_scale:
            st.tv_bad += 1
            st.errors.append("translator validation mismatch cfg=%s sym=%r real=%r" % (json.dumps(cfg)[:200], exact, b))


def _numeral_scale(e):
    scale, seen, stack = 1.0, set(), [e]
    while stack:
        x = stack.pop()
        if x.get_id() in seen:
            continue
        seen.add(x.get_id())
        if z3.is_rational_value(x):
            n, d = abs(x.numerator_as_long()), abs(x.denominator_as_long())
            if n and d:
                scale *= max(n / d, d / n)
        else:
            stack.extend(x.children())
    return min(scale, 1e60)


def _cmp_atoms(formulas):
    out, seen, stack = [], set(), list(formulas)
    while stack:
        x = stack.pop()
        if x.get_id() in seen:
            continue
        seen.add(x.get_id())
        k = x.decl().kind() if z3.is_app(x) else None
        if k in (z3.Z3_OP_LE, z3.Z3_OP_LT, z3.Z3_OP_GE, z3.Z3_OP_GT, z3.Z3_OP_EQ, z3.Z3_OP_DISTINCT) and x.num_args() == 2 \
                and x.arg(0).sort().kind() in (z3.Z3_REAL_SORT, z3.Z3_INT_SORT):
            a, b = x.arg(0), x.arg(1)
            if a.sort().kind() == z3.Z3_INT_SORT:
                continue
            out.append((a, b))
        stack.extend(x.children())
    return out


def _free_vars(e):
    seen, out, stack = set(), [], [e]
    while stack:
        x = stack.pop()
        if x.get_id() in seen:
            continue
        seen.add(x.get_id())
        if z3.is_const(x) and x.decl().kind() == z3.Z3_OP_UNINTERPRETED:
            out.append(x)
        stack.extend(x.children())
    return out


def concrete_fallback(mod, cfg, st, why):
    """The symbolic run of this configuration was stopped by a proxy reaching a C boundary (loud by design). The configuration is then executed
    on generic concrete values: an obligation that fails there is an ordinary, already replayed counterexample; if none fails the harness error stands."""
    spec = mod.inputs(cfg)
    found = False
    for variant in (0, 1, 2, 3):
        vals = {}
        for i, (n, k) in enumerate(sorted(spec.items())):
            sign = {0: 1, 1: -1, 2: (-1) ** i, 3: (-1) ** (i + 1)}[variant]  # all positive, all negative, alternating both ways
            vals[n] = (i + 2) * (sign if variant else 1) if k == "int" else Fraction(2 * i + 3 + variant * 7, 4) * sign
        try:
            Vc, Tc = concrete_inputs(spec, vals)
            obs = run_concrete(mod, cfg, Vc)
            names = [n for n, _P in mod.props(cfg, Tc, obs)]
        except (HarnessError, Exception):  # noqa
            continue
        for name in names:
            if name.startswith("canary:"):
                continue
            try:
                v = eval_prop_concrete(mod, cfg, spec, vals, name)
            except (HarnessError, Exception):  # noqa
                v = None
            if v is False:
                st.failures.append({"cfg": cfg, "obligation": name, "vals": vals_to_json(vals), "key": mod.finding_key(cfg, name) if hasattr(mod, "finding_key") else name,
                                    "claim": "(concrete fallback after: %s)" % why[:120]})
                found = True
        if found:
            st.notes.append("concrete fallback used for %s (%s)" % (json.dumps(cfg)[:120], why[:80]))
            return True
    return False


def _worker(args):
    modname, chunk, seed, tier = args
    import importlib

    mod = importlib.import_module(modname)
    st = Stats()
    rng = random.Random(seed)
    import signal

    def _alarm(signum, frame):
        raise HarnessError("time budget of one configuration exceeded (the code under test does not terminate on this input?)")

    budget = getattr(mod, "ITEM_BUDGET_S", ITEM_BUDGET_S)
    from . import core as _core

    # the engine gives up on the EXPLORATION of one configuration (Abort -> inconclusive) well before the hard wall-clock budget, which also covers the obligations
    _core.ITEM_SECONDS = getattr(mod, "EXPLORE_BUDGET_S", budget * 0.6)
    try:
        signal.signal(signal.SIGALRM, _alarm)
    except (ValueError, AttributeError):  # not in the main thread of the worker: no budget
        budget = 0
    for cfg in chunk:
        try:
            if budget:
                signal.setitimer(signal.ITIMER_REAL, budget, 2.0)  # (repeating: library code with a bare 'except:' may swallow the first one)
            try:
                process_item(mod, cfg, st, rng, tier)
            finally:
                if budget:
                    signal.setitimer(signal.ITIMER_REAL, 0)
        except HarnessError as e:
            # (the concrete fallback gets its own budget: a run that does not terminate on plain floats either is reported as such)
            try:
                if budget:
                    signal.setitimer(signal.ITIMER_REAL, max(15, budget // 3), 2.0)
                ok = concrete_fallback(mod, cfg, st, str(e))
            except HarnessError as e2:
                ok = False
                e = e2
            finally:
                if budget:
                    signal.setitimer(signal.ITIMER_REAL, 0)
            if not ok:
                st.errors.append("HarnessError cfg=%s: %s" % (json.dumps(cfg)[:300], e))
        except Exception as e:  # noqa - a crash of harness code is a harness error, never a verdict
            st.errors.append("harness crash cfg=%s: %s" % (json.dumps(cfg)[:300], traceback.format_exc()[-1500:]))
    return st


class _Known(dict):
    def get(self, pid, default=()):
        if pid not in self:
            self[pid] = {e["key"] for e in load_known(pid)}
        return self[pid]


KNOWN_KEYS = _Known()


def load_known(pid):
    p = os.path.join(ROOT, "known_findings.json")
    if not os.path.exists(p):
        return []
    with open(p) as f:
        data = json.load(f)
    return [e for e in data.get("findings", []) if e.get("property") == pid and e.get("status", "open") == "open"]


def drive(mod, tier, seed, extra=None):
    """Run a harness module end to end. Returns the exit code."""
    t0 = time.time()
    pid = mod.PID
    cfgs = mod.items(tier, seed)
    nproc = int(os.environ.get("VERIF_JOBS", "16"))
    rng = random.Random(seed)
    chunks = {}
    csize = max(1, min(getattr(mod, "CHUNK", 40), (len(cfgs) + nproc * 4 - 1) // (nproc * 4)))
    chunk_list = [cfgs[i:i + csize] for i in range(0, len(cfgs), csize)]
    jobs = [(mod.__name__, c, rng.randrange(1 << 30), tier) for c in chunk_list]
    total = Stats()
    if nproc > 1 and len(jobs) > 1:
        ctx = multiprocessing.get_context("fork")
        with ctx.Pool(min(nproc, len(jobs))) as pool:
            for st in pool.imap_unordered(_worker, jobs):
                total.merge(st)
    else:
        for j in jobs:
            total.merge(_worker(j))
    return finish(mod, tier, seed, total, len(cfgs), time.time() - t0, extra)


def finish(mod, tier, seed, total, n_cfgs, wall, extra=None):
    pid = mod.PID
    known = load_known(pid)
    known_keys = {e["key"]: e for e in known}
    seen_known, violations = {}, []
    for f in total.failures:
        if f["key"] in known_keys:
            seen_known.setdefault(f["key"], f)
        else:
            violations.append(f)
    lines = []
    for k, f in sorted(seen_known.items()):
        lines.append("KNOWN-FINDING: property=%s %s -- %s" % (pid, k, known_keys[k].get("what", "")))
    for k in sorted(set(known_keys) - set(seen_known)):
        if known_keys[k].get("tiers") and tier not in known_keys[k]["tiers"]:
            continue
        lines.append("note: known finding %s not observed in this run (tier=%s)" % (k, tier))
    os.makedirs(os.path.join(ROOT, "cases"), exist_ok=True)
    seen_vkeys = set()
    for f in violations:
        if f["key"] in seen_vkeys:
            continue
        seen_vkeys.add(f["key"])
        case = {"property": pid, "harness": mod.__name__, "cfg": f["cfg"], "obligation": f["obligation"],
                "vals": f["vals"], "key": f["key"], "claim": f["claim"]}
        hname = hashlib.blake2b(json.dumps(case, sort_keys=True).encode(), digest_size=6).hexdigest()
        path = os.path.join(ROOT, "cases", "%s_%s.json" % (pid, hname))
        with open(path, "w") as fh:
            json.dump(case, fh, indent=1, sort_keys=True)
        lines.append("VIOLATION property=%s replay=%s" % (pid, path))
        lines.append("  case: %s :: %s :: %s" % (f["key"], json.dumps(f["cfg"])[:200], json.dumps({k: v.get("float", v.get("int")) for k, v in f["vals"].items()})))
    code = EXIT_OK
    if violations:
        code = EXIT_VIOLATION
    elif total.errors or total.unreproduced:
        code = EXIT_HARNESS
    elif total.unknown or total.inconclusive_items:
        code = EXIT_INCONCLUSIVE
    elif total.paths == 0 or total.obligations == 0:
        lines.append("error: vacuous run (no path reached an obligation)")
        code = EXIT_HARNESS
    elif getattr(mod, "NEEDS_CANARY", True) and total.canary_ok == 0:
        lines.append("error: no canary obligation was refuted+replayed (engine may be blind)")
        code = EXIT_HARNESS
    for e in total.errors[:20]:
        lines.append("harness-error: %s" % e)
    for u in total.unreproduced[:20]:
        lines.append("unreproduced-counterexample: %s %s %s" % (u["key"], json.dumps(u["cfg"])[:200], json.dumps(u["vals"])[:300]))
    for n in total.notes[:15]:
        lines.append("note: %s" % n)
    ev = {
        "property_id": pid,
        "tier": tier,
        "seed": seed,
        "level": "model_checking",
        "coverage": {
            "evaluations": total.paths,
            "distinct_nontrivial": len(total.hashes),
            "rule": "evaluations = feasible paths of the real code executed on proxies; an obligation instance is non-trivial when it needed "
                    "the solver, or was decided on a value-dependent path (non-empty path condition), or on a path where the real code compared symbolic "
                    "terms that the simplifier decided for all values (term identity); distinct when the hash of "
                    "(configuration, path condition, obligation, claim) was not seen before",
            "states": max(len(total.state_hashes), 1),
            "transitions": max(total.transitions, 1),
            "traces_validated_against_impl": total.tv_samples + total.replayed,
            "states_rule": "states = distinct (configuration, path condition) pairs reached; transitions = branch decisions taken by the real code on "
                           "proxies along those paths; traces validated = paths re-run on plain floats by translator validation + replayed counterexamples",
            "samples": total.samples[:6] or [{"note": "no solver-discharged sample recorded"}],
            "exhaustive": bool(getattr(mod, "EXHAUSTIVE", {}).get(tier, False)),
            "configurations": n_cfgs,
            "configurations_explored": total.items,
            "paths_raising": total.paths_raised,
            "obligations": total.obligations,
            "closed_by_simplifier": total.simp,
            "unsat": total.unsat,
            "sat": total.sat,
            "unknown": total.unknown,
            "feasibility_queries": total.feas_queries,
            "feasibility_unknown_treated_as_feasible": total.feas_unknown,
            "inconclusive_configurations": total.inconclusive_items,
            "canaries_refuted_and_replayed": total.canary_ok,
            "translator_validation": {"paths": total.tv_samples, "leaves_compared": total.tv_leaves, "mismatches": total.tv_bad},
            "second_solver": {"solver": "cvc5 (python wheel)", "obligations_rechecked": total.x_checked, "agree": total.x_agree, "cvc5_unknown_or_timeout": total.x_unknown,
                              "disagree": total.x_disagree, "note": "thorough tier only: a seeded sample of z3-discharged obligations exported with Solver.to_smt2()"},
            "known_findings_observed": sorted(seen_known),
            "unreproduced_counterexamples": len(total.unreproduced),
            "solver_seconds": round(total.solver_s, 2),
            "functions_encoded": mod.FUNCTIONS,
            "bounds": mod.BOUNDS[tier] if isinstance(mod.BOUNDS, dict) else mod.BOUNDS,
            "shims": shims.SHIM_LIST,
            "solver": "z3 " + z3.get_version_string(),
        },
        "assumptions": list(mod.ASSUMPTIONS),
        "wall_s": round(wall, 2),
        "violations": len(seen_vkeys),
    }
    if extra:
        ev["coverage"].update(extra)
    os.makedirs(os.path.join(ROOT, "evidence"), exist_ok=True)
    with open(os.path.join(ROOT, "evidence", "%s.json" % pid), "w") as fh:
        json.dump(ev, fh, indent=1, default=str)
    for ln in lines:
        print(ln)
    print("%s tier=%s cfgs=%d paths=%d obligations=%d simp=%d unsat=%d sat=%d unknown=%d canary_ok=%d known=%d violations=%d "
          "tv=%d/%d wall=%.1fs solver=%.1fs exit=%d" % (pid, tier, n_cfgs, total.paths, total.obligations, total.simp, total.unsat,
                                                    total.sat, total.unknown, total.canary_ok, len(seen_known), len(seen_vkeys),
                                                    total.tv_leaves, total.tv_bad, wall, total.solver_s, code))
    sys.stdout.flush()
    return code


def replay_case(path):
    import importlib

    with open(path) as f:
        case = json.load(f)
    mod = importlib.import_module(case["harness"])
    spec = mod.inputs(case["cfg"])
    vals = vals_from_json(case["vals"])
    v = eval_prop_concrete(mod, case["cfg"], spec, vals, case["obligation"])
    Vc, _ = concrete_inputs(spec, vals)
    print("replay %s cfg=%s obligation=%s inputs=%s" % (case["property"], json.dumps(case["cfg"]), case["obligation"], Vc))
    print("observables on the real code: %r" % (run_concrete(mod, case["cfg"], Vc),))
    if v is False:
        print("VIOLATION property=%s replay=%s" % (case["property"], path))
        return EXIT_VIOLATION
    print("not reproduced (property evaluates to %r)" % v)
    return EXIT_OK
