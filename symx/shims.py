"""Harness-side shims (no change to /repo). Each shim delegates to the builtin it shadows for
non-proxy arguments (assumption A-SHIM) and is part of every claim made with it."""
import builtins
import contextlib
import math as _math
import types

import numpy
import z3

from . import core
from .core import HarnessError, SymFP, SymInt, SymReal, SymSeq

_float = builtins.float
_len = builtins.len


def sym_float(v=0.0):
    if isinstance(v, (SymReal, SymFP)):
        return v
    if isinstance(v, SymInt):
        return SymReal(z3.ToReal(v.expr))
    if not isinstance(v, (int, _float, str, bytes)) and hasattr(type(v), "__float__"):
        r = type(v).__float__(v)  # builtin float() would strip a proxy returned by a user-defined __float__
        if isinstance(r, (SymReal, SymFP)):
            return r
        return _float(r)
    return _float(v)


# isinstance(x, float) / float as a type must keep working where code uses `float` in isinstance.
class _FloatShimMeta(type):
    def __instancecheck__(cls, inst):
        return isinstance(inst, _float)

    def __subclasscheck__(cls, sub):
        return issubclass(sub, _float)

    def __eq__(cls, other):
        return other is _float or other is cls

    def __hash__(cls):
        return hash(_float)


class FloatShim(metaclass=_FloatShimMeta):
    """Callable stand-in for the name `float` in a module's globals."""

    def __new__(cls, v=0.0):
        return sym_float(v)


def sym_len(o):
    if isinstance(o, SymSeq):
        return o.n
    return _len(o)


class _MathShim(types.ModuleType):
    def __init__(self):
        super().__init__("math")
        self.__dict__.update(_math.__dict__)
        self.__dict__["pow"] = self._pow

    @staticmethod
    def _pow(x, y):
        if isinstance(y, (SymReal, SymInt)):
            raise HarnessError("symbolic exponent in math.pow")
        if isinstance(x, SymReal):
            return core.sym_pow(x, y, ValueError)
        return _math.pow(x, y)


MATH_SHIM = _MathShim()

_np_isnan = numpy.isnan


def sym_isnan(x, *a, **k):
    if isinstance(x, SymFP):
        return core.ENG.branch(z3.fpIsNaN(x.expr))
    if isinstance(x, (SymReal, SymInt)):
        return False
    if isinstance(x, numpy.ndarray) and x.dtype == object:
        return numpy.array([sym_isnan(v) for v in x.ravel()], dtype=bool).reshape(x.shape)
    return _np_isnan(x, *a, **k)


FLOAT_MODULES = [
    "barril.units._scalar",
    "barril.units._array",
    "barril.units._fraction_scalar",
    "barril.basic.fraction._fraction_value",
    "barril.basic.fraction._fraction",
]
LEN_MODULES = ["barril.units._fixedarray", "barril.units._array", "barril.curve.curve"]


@contextlib.contextmanager
def installed(std_fraction=None):
    """Install all shims for the duration of a symbolic run; always restored."""
    import importlib

    saved = []

    def setg(modname, name, val):
        m = importlib.import_module(modname)
        saved.append((m, name, m.__dict__.get(name, _MISSING)))
        m.__dict__[name] = val

    for mn in FLOAT_MODULES:
        setg(mn, "float", FloatShim)
    for mn in LEN_MODULES:
        setg(mn, "len", sym_len)
    setg("barril.units.unit_database", "math", MATH_SHIM)
    if std_fraction is not None:
        setg("barril.basic.fraction._fraction", "StdFraction", std_fraction)
    saved.append((numpy, "isnan", numpy.isnan))
    numpy.isnan = sym_isnan
    try:
        yield
    finally:
        for m, name, old in reversed(saved):
            if old is _MISSING:
                m.__dict__.pop(name, None)
            else:
                if m is numpy:
                    setattr(numpy, name, old)
                else:
                    m.__dict__[name] = old


_MISSING = object()

SHIM_LIST = [
    "module-global `float` in %s -> returns a proxy unchanged, else builtin float" % ", ".join(m.split(".")[-1] for m in FLOAT_MODULES),
    "module-global `len` in _fixedarray, _array, curve -> SymInt length of a SymSeq, else builtin len",
    "unit_database.math -> math with pow(proxy, n | 1/n) modelled (fresh root r>=0, r^n=x; domain errors forked), else math.pow",
    "numpy.isnan wrapped: fpIsNaN for SymFP, False for Real-mode proxies, element-wise on object arrays, else numpy.isnan",
]


# ------------------------------------------------------------------------------------------------
# SymArray: model of a float64 ndarray (assumption A-NP: numpy loops = python operator per element)
# ------------------------------------------------------------------------------------------------
class SymArray(numpy.ndarray):
    def __new__(cls, elems):
        a = numpy.empty(_len(elems), dtype=object)
        for i, e in enumerate(elems):
            a[i] = e
        return a.view(cls)

    def __array_ufunc__(self, ufunc, method, *inputs, **kwargs):
        conv = []
        for x in inputs:
            if isinstance(x, SymArray):
                conv.append(x.view(numpy.ndarray))
            elif isinstance(x, (list, tuple)):
                a = numpy.empty(_len(x), dtype=object)
                for i, e in enumerate(x):
                    a[i] = e
                conv.append(a)
            elif isinstance(x, numpy.ndarray) and x.dtype != object:
                conv.append(x.astype(object))
            elif isinstance(x, (SymReal, SymFP, SymInt)):
                a = numpy.empty((), dtype=object)  # numpy would coerce a float subclass to float64 and strip the proxy
                a[()] = x
                conv.append(a)
            else:
                conv.append(x)
        out = kwargs.pop("out", None)
        r = getattr(ufunc, method)(*conv, **kwargs)
        if out is not None:
            # in-place semantics (a *= k): write through to the target array, as a float64 ndarray would
            tgt = out[0] if isinstance(out, tuple) else out
            tgt.view(numpy.ndarray)[...] = r
            return tgt
        if isinstance(r, numpy.ndarray):
            if r.dtype == object:
                return r.view(SymArray)
            return r
        return r

    def __copy__(self):
        return SymArray(list(self))

    def __deepcopy__(self, memo):
        return SymArray(list(self))
