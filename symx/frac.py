"""SymFrac: stand-in for fractions.Fraction inside barril.basic.fraction._fraction (C18 only).
A rational VALUE term plus representation-agnostic numerator/denominator: fresh integers N, D with D > 0 and
N = value * D (nothing else is assumed about them), so a proof holds for every representation a real
fractions.Fraction could pick, including the reduced one."""
import z3

from . import core
from .core import SymInt, SymReal


def _val(x):
    if isinstance(x, SymFrac):
        return x.val
    if isinstance(x, SymInt):
        return z3.ToReal(x.expr)
    if isinstance(x, SymReal):
        return x.expr
    if isinstance(x, bool):
        return z3.RealVal(int(x))
    if isinstance(x, int):
        return z3.RealVal(x)
    if isinstance(x, float):
        return core.rv(x)
    import fractions

    if isinstance(x, fractions.Fraction):
        return core.rv(x)
    raise core.HarnessError("SymFrac of %r" % (x,))


class SymFrac:
    def __init__(self, a=0, b=None, _val_=None):
        if _val_ is not None:
            self.val = _val_
        else:
            ea = _val(a)
            if b is None:
                self.val = ea
            else:
                eb = _val(b)
                if core.ENG.branch(eb == 0):
                    raise ZeroDivisionError("Fraction(%s, 0)" % a)
                self.val = z3.simplify(ea / eb)
        self._nd = None

    def _rep(self):
        if self._nd is None:
            v = z3.simplify(self.val)
            if z3.is_rational_value(v):
                self._nd = (v.numerator_as_long(), v.denominator_as_long())
            else:
                N, D = core.ENG.fresh("N", z3.IntSort()), core.ENG.fresh("D", z3.IntSort())
                core.ENG.assume(z3.And(D > 0, z3.ToReal(N) == self.val * z3.ToReal(D)))
                self._nd = (SymInt(N), SymInt(D))
        return self._nd

    numerator = property(lambda s: s._rep()[0])
    denominator = property(lambda s: s._rep()[1])

    def _mk(self, v):
        return SymFrac(_val_=z3.simplify(v))

    def __add__(s, o):
        return s._mk(s.val + _val(o))

    __radd__ = __add__

    def __sub__(s, o):
        return s._mk(s.val - _val(o))

    def __rsub__(s, o):
        return s._mk(_val(o) - s.val)

    def __mul__(s, o):
        return s._mk(s.val * _val(o))

    __rmul__ = __mul__

    def __neg__(s):
        return s._mk(-s.val)

    def __abs__(s):
        return s._mk(core.zabs(s.val))

    def __truediv__(s, o):
        d = _val(o)
        if core.ENG.branch(d == 0):
            raise ZeroDivisionError("Fraction division by zero")
        return s._mk(s.val / d)

    def __rtruediv__(s, o):
        if core.ENG.branch(s.val == 0):
            raise ZeroDivisionError("Fraction division by zero")
        return s._mk(_val(o) / s.val)

    def __mod__(s, o):
        d = _val(o)
        if core.ENG.branch(d == 0):
            raise ZeroDivisionError("Fraction modulo by zero")
        q = z3.ToReal(z3.ToInt(s.val / d))
        return s._mk(s.val - d * q)

    def __float__(s):
        return SymReal(s.val)

    def __eq__(s, o):
        try:
            return core.ENG.branch(s.val == _val(o))
        except core.HarnessError:
            return False

    def __lt__(s, o):
        return core.ENG.branch(s.val < _val(o))

    def __le__(s, o):
        return core.ENG.branch(s.val <= _val(o))

    def __gt__(s, o):
        return core.ENG.branch(s.val > _val(o))

    def __ge__(s, o):
        return core.ENG.branch(s.val >= _val(o))

    def __hash__(s):
        raise core.HarnessError("hash of SymFrac")

    def __repr__(s):
        return "SymFrac(%s)" % s.val

    def __copy__(s):
        return s

    def __deepcopy__(s, memo):
        return s
