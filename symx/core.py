"""symx core: proxy symbolic execution of the *real* barril code over z3.

A harness is an ordinary Python function that builds proxies (SymReal / SymFP / SymInt / SymSeq /
SymArray), calls real barril API with them and returns observables.  Every comparison that the
code under test performs on a proxy reaches Engine.branch(); the explorer re-executes the harness
once per feasible decision sequence, so every path is one real execution of the real code.
"""
import math
import time
from fractions import Fraction

import z3


class Abort(BaseException):
    """Inconclusive exploration (budget, solver unknown where a decision is needed)."""


class HarnessError(BaseException):
    """The harness / proxies were used in a way that would make a verdict meaningless."""


class Infeasible(BaseException):
    """An assumption made the current path infeasible: the path is dropped."""


TAU = Fraction(1, 10**13)  # relative tolerance of every numeric equality (margin discipline)


class Path:
    __slots__ = ("pc", "out", "exc", "decisions", "syntactic")

    def __init__(self, pc, out, exc, decisions, syntactic=0):
        self.pc, self.out, self.exc, self.decisions, self.syntactic = pc, out, exc, decisions, syntactic


MAX_DECISIONS_PER_PATH = 300
ITEM_SECONDS = 100.0  # exploration budget of one configuration (Abort -> inconclusive), set by the driver per harness


class Engine:
    def __init__(self, query_timeout_ms=10000, max_paths=4000):
        self.solver = z3.Solver()
        self.solver.set("timeout", query_timeout_ms)
        self.query_timeout_ms = query_timeout_ms
        self.max_paths = max_paths
        self.prefix = []
        self.trace = []
        self.pc = []
        self.work = []
        self.active = False
        self.hash_reps = []
        self.fresh_ctr = 0
        self.syntactic = 0
        # statistics
        self.n_feas_queries = 0
        self.n_feas_unknown = 0
        self.n_paths = 0
        self.solver_s = 0.0
        self.deadline = None

    # ---- path condition -------------------------------------------------------------------
    def _check(self, c):
        self.n_feas_queries += 1
        t = time.time()
        self.solver.push()
        self.solver.add(c)
        r = self.solver.check()
        self.solver.pop()
        self.solver_s += time.time() - t
        return r

    def branch(self, cond):
        if isinstance(cond, bool):
            return cond
        cond = z3.simplify(cond)
        if z3.is_true(cond):
            self.syntactic += 1  # a comparison of symbolic terms decided for all values by the simplifier (term identity / constants)
            return True
        if z3.is_false(cond):
            self.syntactic += 1
            return False
        if not self.active:
            raise HarnessError("symbolic branch outside Engine.explore: %s" % cond)
        i = len(self.trace)
        if i > MAX_DECISIONS_PER_PATH or (self.deadline and time.time() > self.deadline):
            # a loop whose trip count depends on a symbolic amount (e.g. 'while abs(a - round(a)) > SMALL: a *= 10'): the configuration is inconclusive, never a verdict
            raise Abort("decision depth %d / time budget of one configuration exceeded" % i)
        if i < len(self.prefix):
            d = self.prefix[i]
        else:
            r_t = self._check(cond)
            if r_t == z3.unsat:
                d = False
            else:
                if r_t == z3.unknown:
                    self.n_feas_unknown += 1
                r_f = self._check(z3.Not(cond))
                if r_f == z3.unknown:
                    self.n_feas_unknown += 1
                if r_f == z3.unsat:
                    d = True
                else:
                    self.work.append(list(self.trace) + [False])
                    d = True
        self.trace.append(d)
        c = cond if d else z3.Not(cond)
        self.pc.append(c)
        self.solver.add(c)
        return d

    def assume(self, cond):
        cond = z3.simplify(cond) if not isinstance(cond, bool) else z3.BoolVal(cond)
        if z3.is_true(cond):
            return
        self.pc.append(cond)
        self.solver.add(cond)
        if z3.is_false(cond) or self.solver.check() == z3.unsat:
            raise Infeasible()

    def fresh(self, prefix, sort=None):
        self.fresh_ctr += 1
        name = "%s!%d" % (prefix, self.fresh_ctr)
        return z3.Const(name, sort if sort is not None else z3.RealSort())

    # ---- exploration ------------------------------------------------------------------------
    def explore(self, fn, max_paths=None):
        """Run fn() once per feasible path. Returns list[Path]. Budget overrun -> Abort."""
        global ENG
        max_paths = max_paths or self.max_paths
        prev = ENG
        ENG = self
        self.work = [[]]
        results = []
        if ITEM_SECONDS:
            self.deadline = time.time() + ITEM_SECONDS
        try:
            while self.work:
                if len(results) >= max_paths:
                    raise Abort("path budget %d exceeded" % max_paths)
                self.prefix = self.work.pop()
                self.trace = []
                self.pc = []
                self.hash_reps = []
                self.fresh_ctr = 0
                self.syntactic = 0
                self.solver.reset()
                self.solver.set("timeout", self.query_timeout_ms)
                self.active = True
                try:
                    out = fn()
                    results.append(Path(list(self.pc), out, None, list(self.trace), self.syntactic))
                except Infeasible:
                    pass
                except (Abort, HarnessError, KeyboardInterrupt, SystemExit, MemoryError):
                    raise
                except BaseException as e:  # noqa - every exception of the code under test is an outcome
                    results.append(Path(list(self.pc), None, e, list(self.trace), self.syntactic))
                finally:
                    self.active = False
                self.n_paths += 1
        finally:
            ENG = prev
        return results


ENG = Engine()


def set_engine(e):
    global ENG
    ENG = e
    return e


# ------------------------------------------------------------------------------------------------
# lifting
# ------------------------------------------------------------------------------------------------
def rv(x):
    """Exact z3 Real constant of a python int/float/Fraction."""
    if isinstance(x, bool):
        return z3.RealVal(int(x))
    if isinstance(x, int):
        return z3.RealVal(x)
    if isinstance(x, Fraction):
        return z3.RealVal(x.numerator) / z3.RealVal(x.denominator) if x.denominator != 1 else z3.RealVal(x.numerator)
    if isinstance(x, float):
        if x != x or x in (math.inf, -math.inf):
            raise HarnessError("non-finite float constant %r reached a Real-mode proxy" % x)
        f = Fraction(x)
        return z3.simplify(z3.RealVal(f.numerator) / z3.RealVal(f.denominator)) if f.denominator != 1 else z3.RealVal(f.numerator)
    raise HarnessError("cannot lift %r" % (x,))


def _np_scalar(o):
    try:
        import numpy

        if isinstance(o, numpy.generic):
            return o.item()
    except ImportError:  # pragma: no cover
        pass
    return o


def lift_real(o):
    """z3 Real term of a proxy or python number; None if o is not numeric."""
    if isinstance(o, SymReal):
        return o.expr
    if isinstance(o, SymInt):
        return z3.ToReal(o.expr)
    if isinstance(o, SymFP):
        raise HarnessError("SymFP mixed into Real-mode arithmetic")
    o = _np_scalar(o)
    if isinstance(o, (bool, int, float, Fraction)):
        return rv(o)
    return None


def term(o):
    """z3 Real term of any numeric observable (proxy, python number, z3 expression)."""
    if isinstance(o, z3.ExprRef):
        if o.sort() == z3.IntSort():
            return z3.ToReal(o)
        return o
    t = lift_real(o)
    if t is None:
        raise HarnessError("not numeric: %r" % (o,))
    return t


def is_sym(o):
    return isinstance(o, (SymReal, SymFP, SymInt))


def zabs(e):
    return z3.If(e >= 0, e, -e)


_TAU_NOW = [TAU]


def set_tau(t):
    _TAU_NOW[0] = Fraction(t)


def get_tau():
    return _TAU_NOW[0]


def approx(a, b, scale=1):
    """|a-b| <= tau * (|a| + |b| + scale): numeric equality up to rounding, decided over the reals."""
    a, b = term(a), term(b)
    d = z3.simplify(a - b, som=True)
    if z3.is_rational_value(d) and d.as_fraction() == 0:
        return z3.BoolVal(True)
    return zabs(a - b) <= rv(_TAU_NOW[0]) * (zabs(a) + zabs(b) + term(scale))


# ------------------------------------------------------------------------------------------------
# SymReal
# ------------------------------------------------------------------------------------------------
_REGISTRY = {}


def _lookup(i):
    return _REGISTRY[i]


class SymReal(float):
    """float subclass carrying a z3 Real term. The C-level payload is NaN on purpose."""

    __slots__ = ("expr",)

    def __new__(cls, expr):
        o = float.__new__(cls, math.nan)
        o.expr = expr
        return o

    # -- arithmetic
    def _bin(self, other, f, rev=False):
        o = lift_real(other)
        if o is None:
            return NotImplemented
        a, b = (o, self.expr) if rev else (self.expr, o)
        return SymReal(z3.simplify(f(a, b)))

    def __add__(s, o):
        return s._bin(o, lambda a, b: a + b)

    def __radd__(s, o):
        return s._bin(o, lambda a, b: a + b, True)

    def __sub__(s, o):
        return s._bin(o, lambda a, b: a - b)

    def __rsub__(s, o):
        return s._bin(o, lambda a, b: a - b, True)

    def __mul__(s, o):
        return s._bin(o, lambda a, b: a * b)

    def __rmul__(s, o):
        return s._bin(o, lambda a, b: a * b, True)

    def _div(s, o, rev, kind):
        e = lift_real(o)
        if e is None:
            return NotImplemented
        num, den = (e, s.expr) if rev else (s.expr, e)
        if ENG.branch(den == 0):
            raise ZeroDivisionError("float division by zero" if kind == "true" else "float floor division by zero")
        if kind == "true":
            return SymReal(z3.simplify(num / den))
        fl = z3.ToReal(z3.ToInt(num / den))
        if kind == "floor":
            return SymReal(z3.simplify(fl))
        return SymReal(z3.simplify(num - den * fl))  # python float %: sign of the divisor

    def __truediv__(s, o):
        return s._div(o, False, "true")

    def __rtruediv__(s, o):
        return s._div(o, True, "true")

    def __floordiv__(s, o):
        return s._div(o, False, "floor")

    def __rfloordiv__(s, o):
        return s._div(o, True, "floor")

    def __mod__(s, o):
        return s._div(o, False, "mod")

    def __rmod__(s, o):
        return s._div(o, True, "mod")

    def __pow__(s, n, mod=None):
        if isinstance(n, (SymReal, SymInt)) or mod is not None:
            raise HarnessError("symbolic exponent")
        return sym_pow(s, n)

    def __rpow__(s, o, mod=None):
        raise HarnessError("symbolic exponent")

    def __neg__(s):
        return SymReal(z3.simplify(-s.expr))

    def __pos__(s):
        return s

    def __abs__(s):
        return SymReal(z3.simplify(zabs(s.expr)))

    def __round__(s, n=None):
        # python rounds half to even; modelled as floor(x*10^n + 1/2)/10^n with the tie excluded.
        k = 0 if n is None else n
        if not isinstance(k, int) or isinstance(k, SymInt):
            raise HarnessError("symbolic ndigits")
        sc = rv(Fraction(10) ** k)
        y = s.expr * sc
        fl = z3.ToReal(z3.ToInt(y + rv(Fraction(1, 2))))
        ENG.assume(z3.Not(z3.ToReal(z3.ToInt(y)) + rv(Fraction(1, 2)) == y))
        r = SymReal(z3.simplify(fl / sc))
        return r

    # -- comparisons
    def _cmp(s, o, f):
        if isinstance(o, float) and not isinstance(o, (SymReal, SymFP)) and (o != o or o in (math.inf, -math.inf)):
            # a finite real against a non-finite float constant: decided without the solver
            return bool(f(0.0, o))
        e = lift_real(o)
        if e is None:
            return NotImplemented
        return ENG.branch(f(s.expr, e))

    def __lt__(s, o):
        return s._cmp(o, lambda a, b: a < b)

    def __le__(s, o):
        return s._cmp(o, lambda a, b: a <= b)

    def __gt__(s, o):
        return s._cmp(o, lambda a, b: a > b)

    def __ge__(s, o):
        return s._cmp(o, lambda a, b: a >= b)

    def __eq__(s, o):
        if isinstance(o, float) and not isinstance(o, (SymReal, SymFP)) and (o != o or o in (math.inf, -math.inf)):
            return False
        e = lift_real(o)
        if e is None:
            return NotImplemented
        return ENG.branch(s.expr == e)

    def __ne__(s, o):
        if isinstance(o, float) and not isinstance(o, (SymReal, SymFP)) and (o != o or o in (math.inf, -math.inf)):
            return True
        e = lift_real(o)
        if e is None:
            return NotImplemented
        return ENG.branch(s.expr != e)

    def __bool__(s):
        return ENG.branch(s.expr != 0)

    def __hash__(s):
        # congruence token: equal under the path condition => same token (assumption A-HASH)
        for t, tok in ENG.hash_reps:
            if ENG.branch(s.expr == t):
                return tok
        tok = 0x5EED0000 + len(ENG.hash_reps)
        ENG.hash_reps.append((s.expr, tok))
        return tok

    # -- conversions
    def __float__(s):
        return s

    def __int__(s):
        raise HarnessError("int() of a symbolic real")

    __trunc__ = __int__
    __index__ = __int__

    def __floor__(s):
        raise HarnessError("floor() of a symbolic real")

    __ceil__ = __floor__

    def is_integer(s):
        raise HarnessError("is_integer() of a symbolic real")

    def __repr__(s):
        name = "_symx_%d" % id(s)
        _REGISTRY[name] = s
        return name

    __str__ = __repr__

    def __format__(s, spec):
        return "<sym>" if spec else s.__repr__()

    def __copy__(s):
        return s

    def __deepcopy__(s, memo):
        return s

    def __reduce__(s):
        _REGISTRY[id(s)] = s
        return (_lookup, (id(s),))

    def __reduce_ex__(s, protocol):
        return s.__reduce__()


def sym_pow(x, n, zero_exc=ZeroDivisionError):
    """x ** n for a proxy x and a concrete exponent n (int, or float with integral value / 1/k).
    zero_exc: what 0 ** negative raises (ZeroDivisionError for the ** operator, ValueError for math.pow)."""
    if isinstance(n, float) and n == int(n):
        n = int(n)
    e = x.expr
    if isinstance(n, int):
        if n == 0:
            return 1.0
        r = e
        for _ in range(abs(n) - 1):
            r = r * e
        if n < 0:
            if ENG.branch(e == 0):
                raise zero_exc("0.0 cannot be raised to a negative power" if zero_exc is ZeroDivisionError else "math domain error")
            r = 1 / r
        return SymReal(z3.simplify(r))
    # fractional exponent 1/k: fresh root
    f = Fraction(n).limit_denominator(64)
    if abs(float(f) - n) > 1e-15 or abs(f.numerator) != 1:
        raise HarnessError("unsupported exponent %r" % n)
    k = f.denominator
    if ENG.branch(e < 0):
        raise ValueError("math domain error")
    if f.numerator < 0 and ENG.branch(e == 0):
        raise ValueError("math domain error")
    r = ENG.fresh("root")
    rk = r
    for _ in range(k - 1):
        rk = rk * r
    ENG.assume(z3.And(r >= 0, rk == e))
    if f.numerator < 0:
        return SymReal(z3.simplify(1 / r))
    return SymReal(r)


# ------------------------------------------------------------------------------------------------
# SymFP: IEEE double proxy (comparisons, NaN test; arithmetic available, RNE)
# ------------------------------------------------------------------------------------------------
F64 = z3.Float64()
RNE = z3.RNE()


def lift_fp(o):
    if isinstance(o, SymFP):
        return o.expr
    if isinstance(o, (SymReal, SymInt)):
        raise HarnessError("Real-mode proxy mixed into FP-mode")
    o = _np_scalar(o)
    if isinstance(o, bool):
        return z3.FPVal(float(int(o)), F64)
    if isinstance(o, (int, float)):
        return z3.FPVal(float(o), F64)
    return None


class SymFP(float):
    __slots__ = ("expr",)

    def __new__(cls, expr):
        o = float.__new__(cls, 12345.678)
        o.expr = expr
        return o

    def _bin(s, other, f, rev=False):
        o = lift_fp(other)
        if o is None:
            return NotImplemented
        a, b = (o, s.expr) if rev else (s.expr, o)
        return SymFP(z3.simplify(f(a, b)))

    def __add__(s, o):
        return s._bin(o, lambda a, b: z3.fpAdd(RNE, a, b))

    def __radd__(s, o):
        return s._bin(o, lambda a, b: z3.fpAdd(RNE, a, b), True)

    def __sub__(s, o):
        return s._bin(o, lambda a, b: z3.fpSub(RNE, a, b))

    def __rsub__(s, o):
        return s._bin(o, lambda a, b: z3.fpSub(RNE, a, b), True)

    def __mul__(s, o):
        return s._bin(o, lambda a, b: z3.fpMul(RNE, a, b))

    def __rmul__(s, o):
        return s._bin(o, lambda a, b: z3.fpMul(RNE, a, b), True)

    def __truediv__(s, o):
        e = lift_fp(o)
        if e is None:
            return NotImplemented
        if ENG.branch(z3.fpIsZero(e)):
            raise ZeroDivisionError("float division by zero")
        return SymFP(z3.simplify(z3.fpDiv(RNE, s.expr, e)))

    def __rtruediv__(s, o):
        e = lift_fp(o)
        if e is None:
            return NotImplemented
        if ENG.branch(z3.fpIsZero(s.expr)):
            raise ZeroDivisionError("float division by zero")
        return SymFP(z3.simplify(z3.fpDiv(RNE, e, s.expr)))

    def __neg__(s):
        return SymFP(z3.fpNeg(s.expr))

    def __abs__(s):
        return SymFP(z3.fpAbs(s.expr))

    def _cmp(s, o, f):
        e = lift_fp(o)
        if e is None:
            return NotImplemented
        return ENG.branch(f(s.expr, e))

    def __lt__(s, o):
        return s._cmp(o, z3.fpLT)

    def __le__(s, o):
        return s._cmp(o, z3.fpLEQ)

    def __gt__(s, o):
        return s._cmp(o, z3.fpGT)

    def __ge__(s, o):
        return s._cmp(o, z3.fpGEQ)

    def __eq__(s, o):
        e = lift_fp(o)
        if e is None:
            return NotImplemented
        return ENG.branch(z3.fpEQ(s.expr, e))

    def __ne__(s, o):
        e = lift_fp(o)
        if e is None:
            return NotImplemented
        return ENG.branch(z3.Not(z3.fpEQ(s.expr, e)))

    def __bool__(s):
        return ENG.branch(z3.Not(z3.fpIsZero(s.expr)))

    def __hash__(s):
        raise HarnessError("hash of SymFP")

    def __float__(s):
        return s

    def __repr__(s):
        return "<symfp>"

    __str__ = __repr__

    def __format__(s, spec):
        return "<symfp>"

    def __copy__(s):
        return s

    def __deepcopy__(s, memo):
        return s


# ------------------------------------------------------------------------------------------------
# SymInt / SymSeq
# ------------------------------------------------------------------------------------------------
SYMINT_PAYLOAD = [7919]


def lift_int(o):
    if isinstance(o, SymInt):
        return o.expr
    if isinstance(o, bool):
        return z3.IntVal(int(o))
    if isinstance(o, int):
        return z3.IntVal(o)
    return None


class SymInt(int):
    """int subclass over a z3 Int term (dimension / length reasoning only)."""

    def __new__(cls, expr):
        o = int.__new__(cls, SYMINT_PAYLOAD[0])
        o.expr = expr
        return o

    def _b(s, o, f, rev=False):
        e = lift_int(o)
        if e is None:
            if isinstance(o, (float, SymReal)):
                raise HarnessError("SymInt mixed with float arithmetic")
            return NotImplemented
        a, b = (e, s.expr) if rev else (s.expr, e)
        return SymInt(z3.simplify(f(a, b)))

    def __add__(s, o):
        return s._b(o, lambda a, b: a + b)

    def __radd__(s, o):
        return s._b(o, lambda a, b: a + b, True)

    def __sub__(s, o):
        return s._b(o, lambda a, b: a - b)

    def __rsub__(s, o):
        return s._b(o, lambda a, b: a - b, True)

    def __mul__(s, o):
        if isinstance(o, (list, tuple, str, bytes)):
            raise HarnessError("sequence repetition by a symbolic int")
        return s._b(o, lambda a, b: a * b)

    def __rmul__(s, o):
        if isinstance(o, (list, tuple, str, bytes)):
            raise HarnessError("sequence repetition by a symbolic int")
        return s._b(o, lambda a, b: a * b, True)

    def __neg__(s):
        return SymInt(-s.expr)

    def __abs__(s):
        return SymInt(z3.If(s.expr >= 0, s.expr, -s.expr))

    def __round__(s, n=None):
        return s

    def __float__(s):
        return SymReal(z3.ToReal(s.expr))

    def __truediv__(s, o):
        return SymReal(z3.ToReal(s.expr)).__truediv__(o)

    def __rtruediv__(s, o):
        return SymReal(z3.ToReal(s.expr)).__rtruediv__(o)

    def _c(s, o, f):
        e = lift_int(o)
        if e is None:
            if isinstance(o, SymReal):
                return ENG.branch(f(z3.ToReal(s.expr), o.expr))
            if isinstance(o, float) and not isinstance(o, SymFP):
                if o != o or o in (math.inf, -math.inf):
                    return bool(f(0, o))
                return ENG.branch(f(z3.ToReal(s.expr), rv(o)))  # never let float.__lt__ see the int payload
            return NotImplemented
        return ENG.branch(f(s.expr, e))

    def __lt__(s, o):
        return s._c(o, lambda a, b: a < b)

    def __le__(s, o):
        return s._c(o, lambda a, b: a <= b)

    def __gt__(s, o):
        return s._c(o, lambda a, b: a > b)

    def __ge__(s, o):
        return s._c(o, lambda a, b: a >= b)

    def __eq__(s, o):
        e = lift_int(o)
        if e is None and isinstance(o, float) and not isinstance(o, (SymReal, SymFP)):
            if o != o or o in (math.inf, -math.inf):
                return False
            return ENG.branch(z3.ToReal(s.expr) == rv(o))
        return False if e is None else ENG.branch(s.expr == e)

    def __ne__(s, o):
        r = s.__eq__(o)
        return not r

    def __bool__(s):
        return ENG.branch(s.expr != 0)

    def __hash__(s):
        raise HarnessError("hash of SymInt")

    def __index__(s):
        raise HarnessError("__index__ of SymInt")

    def __repr__(s):
        return "<symint>"

    __str__ = __repr__

    def __format__(s, spec):
        return "<symint>"

    def __copy__(s):
        return s

    def __deepcopy__(s, memo):
        return s


class SymSeq:
    """Container stand-in whose only property is a (symbolic) length."""

    def __init__(self, n):
        self.n = n

    def __len__(self):
        raise HarnessError("len() of SymSeq leaked past the len shim")

    def __iter__(self):
        raise HarnessError("iteration over SymSeq")

    def __getitem__(self, i):
        if isinstance(i, slice):
            raise HarnessError("slicing SymSeq")
        return 0.0  # a container of plain floats whose only symbolic property is its length

    def __copy__(self):
        return self

    def __deepcopy__(self, memo):
        return self
