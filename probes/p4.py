from barril.units import Quantity
def ref_makestr(re_):
    def one(r, e): return r if e == 1 else "(%s) ** %d" % (r, e)
    num = " * ".join(one(r, e) for r, e in re_ if e > 0)
    den = " * ".join(one(r, -e) for r, e in re_ if e < 0)
    if den:
        return (num or "1") + " / " + den
    return num
def c20_makestr_onedenominator(e1: int, e2: int, e3: int) -> bool:
    """
    pre: -4 <= e1 <= 4 and -4 <= e2 <= 4 and -4 <= e3 <= 4
    pre: (e1 < 0) + (e2 < 0) + (e3 < 0) <= 1
    post: _
    """
    lst = [("length", e1), ("time", e2), ("mass", e3)]
    return Quantity._MakeStr(None, lst) == ref_makestr(lst)
