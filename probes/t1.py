import time, z3, numpy
from symx import *
import barril.units._scalar as _scalar, barril.units._array as _array, barril.units._fraction_scalar as _fs
_scalar.float = sym_float; _array.float = sym_float
from barril.units import UnitDatabase, Scalar, Array, ObtainQuantity
db = UnitDatabase.GetSingleton()
x = Sym(z3.Real('x')); y = Sym(z3.Real('y'))

def valid(pc, neg):
    s = z3.Solver(); s.add(*pc, neg); return s.check()

# 1. per-unit roundtrip on all units
t=time.time(); n=0; bad=[]
for info in db.GetInfos():
    res = ENG.explore(lambda: info.frombase(info.tobase(x)))
    for pc,out,exc in res:
        n+=1
        if exc is not None: bad.append((info.unit, 'exc', exc)); continue
        if valid(pc, out.expr != x.expr) != z3.unsat: bad.append((info.unit,'rt'))
print("roundtrip", n, "paths", len(bad), "bad", bad[:5], round(time.time()-t,2),"s", ENG.queries)

# 2. Scalar route vs db route
def route():
    return Scalar(x, "degF").GetValue("degC"), db.Convert("temperature","degF","degC",x)
for pc,out,exc in ENG.explore(route):
    print("scalar route", pc, out, exc, valid(pc, out[0].expr != out[1].expr))

# 3. derived add
def add():
    a = Scalar(x,"m")*Scalar(1.0,"m"); b = Scalar(y,"cm")*Scalar(1.0,"cm")
    r = a+b
    return r
for pc,out,exc in ENG.explore(add):
    print("add", repr(out), exc)
    print(" phys ok?", valid(pc, out.value.expr != x.expr + y.expr/10000))

# 4. lt coherent
def lt():
    a=Scalar(x,"m"); b=Scalar(y,"cm")
    return (a>b), (b>a)
for pc,out,exc in ENG.explore(lt):
    print("lt", pc, out, exc)

# 5. array ops list + numpy object
def arr():
    a = Array([x, y], "m"); b = Array(numpy.array([x,y],dtype=object), "cm")
    return (a+b).values, a.GetValues("cm"), b.GetValues("m"), (b*a).values, (2.0*a).values
for pc,out,exc in ENG.explore(arr):
    print("arr", pc, out, exc)
