import z3, time
from symx import ENG
class SymInt(int):
    def __new__(cls, e):
        o = int.__new__(cls, 0xDEAD0BAD); o.expr = e; return o
    def _l(s,o):
        if isinstance(o, SymInt): return o.expr
        if isinstance(o, bool): return z3.IntVal(int(o))
        if isinstance(o, int): return z3.IntVal(o)
        return None
    def __lt__(s,o): return ENG.branch(s.expr < s._l(o))
    def __le__(s,o): return ENG.branch(s.expr <= s._l(o))
    def __gt__(s,o): return ENG.branch(s.expr > s._l(o))
    def __ge__(s,o): return ENG.branch(s.expr >= s._l(o))
    def __eq__(s,o):
        e = s._l(o)
        return False if e is None else ENG.branch(s.expr == e)
    def __ne__(s,o):
        e = s._l(o)
        return True if e is None else ENG.branch(s.expr != e)
    def __hash__(s): raise TypeError("hash(SymInt)")
    def __repr__(s): return "SymInt(%s)"%s.expr
    __str__=__repr__
class SymSeq:
    """container stand-in with symbolic length"""
    def __init__(s, n): s.n = n
    def __len__(s): raise TypeError("len leak")
_len = len
def sym_len(o):
    if isinstance(o, SymSeq): return o.n
    return _len(o)
import barril.units._fixedarray as fa, barril.units._array as ar, barril.curve.curve as cv
fa.len = sym_len; cv.len = sym_len; ar.len = sym_len
from barril.units import FixedArray, Array, ObtainQuantity
from barril.curve.curve import Curve
D = SymInt(z3.Int('D')); L = SymInt(z3.Int('L')); n = SymInt(z3.Int('n')); k = SymInt(z3.Int('k'))
def run():
    f = FixedArray(D, SymSeq(L), "m")
    return f.dimension, sym_len(f.values)
t=time.time(); res = ENG.explore(run)
for pc,out,exc in res: print(pc, out, type(exc).__name__ if exc else None, exc)
def cw():
    f = FixedArray.CreateWithQuantity(ObtainQuantity("m"), SymSeq(L), dimension=D)
    return f.dimension, sym_len(f.values)
for pc,out,exc in ENG.explore(cw): print("CW", pc, out, type(exc).__name__ if exc else None)
def cw2():
    f = FixedArray.CreateWithQuantity(ObtainQuantity("m"), SymSeq(L))
    return f.dimension, sym_len(f.values)
for pc,out,exc in ENG.explore(cw2): print("CW2", pc, out, type(exc).__name__ if exc else None)
def curve():
    c = Curve(Array(SymSeq(n),"m"), Array(SymSeq(n),"s"))
    try: c.SetImage(Array(SymSeq(k),"m"))
    except ValueError: pass
    return sym_len(c.GetImage().GetValues()), sym_len(c.GetDomain().GetValues())
for pc,out,exc in ENG.explore(curve):
    s=z3.Solver(); s.add(*pc, out[0].expr != out[1].expr); print("curve", pc, out, exc, s.check())
print(round(time.time()-t,2))
