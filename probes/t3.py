import z3, numpy, traceback
from symx import *
import symx
_l = symx.lift
def lift2(v):
    if isinstance(v, numpy.generic) and not isinstance(v, Sym): v = v.item()
    return _l(v)
symx.lift = lift2
import barril.units._scalar as _scalar, barril.units._array as _array
_scalar.float = sym_float; _array.float = sym_float
from barril.units import UnitDatabase, Scalar, Array, ObtainQuantity, FixedArray
x = Sym(z3.Real('x')); y = Sym(z3.Real('y'))
ENG.prefix=[]; ENG.trace=[]; ENG.pc=[]
class SymArray(numpy.ndarray):
    def __array_ufunc__(self, ufunc, method, *inputs, **kw):
        ins = [numpy.asarray(i.view(numpy.ndarray) if isinstance(i, numpy.ndarray) else (numpy.array(i, dtype=object) if isinstance(i,(list,tuple)) else i)) if not isinstance(i,(float,int)) else i for i in inputs]
        r = getattr(ufunc, method)(*ins, **kw)
        return r.view(SymArray) if isinstance(r, numpy.ndarray) else r
def symarr(l): return numpy.array(l, dtype=object).view(SymArray)
for name, f in [
 ("a+b mixed", lambda: (Array([x, y], "m") + Array(symarr([x,y]), "cm")).values),
 ("b+a mixed", lambda: (Array(symarr([x,y]), "cm") + Array([x, y], "m")).values),
 ("GetValues list", lambda: Array([x, y], "m").GetValues("cm")),
 ("GetValues tuple", lambda: Array((x, y), "m").GetValues("cm")),
 ("GetValues np", lambda: Array(symarr([x,y]), "m").GetValues("cm")),
 ("b*a", lambda: (Array(symarr([x,y]), "cm")*Array((x, y), "m")).values),
 ("2*a", lambda: (2.0*Array([x, y], "m")).values),
 ("b*2", lambda: (Array(symarr([x,y]), "cm")*2.0).values),
 ("np64*a", lambda: (numpy.float64(2.0)*Array([x, y], "m")).values),
 ("a*np64", lambda: (Array([x, y], "m")*numpy.float64(2.0)).values),
 ("np64*s", lambda: (numpy.float64(2.0)*Scalar(x, "m"))),
 ("nparr*b", lambda: numpy.array([2.0,3.0])*Array(symarr([x,y]), "cm")),
 ("nparr*a", lambda: numpy.array([2.0,3.0])*Array([x, y], "m")),
 ("fixed", lambda: FixedArray(2, [x,y], "m").ChangingIndex(0, Scalar(y,"cm")).values),
 ("fixedidx", lambda: FixedArray(2, (x,y), "m").IndexAsScalar(1, ObtainQuantity("cm","length"))),
 ("derived conv", lambda: (Scalar(x,"m")*Scalar(1.0,"m")).GetValue("cm2")),
]:
    try: print(name, "->", repr(f()))
    except Exception as e: print(name, "EXC", type(e).__name__, e)
