from barril.units import UnitDatabase, Scalar
db = UnitDatabase.GetSingleton()

def roundtrip_cm(x: float) -> float:
    """
    pre: -1e6 < x < 1e6
    post: _ == x
    """
    return db.Convert("length", "m", "cm", db.Convert("length", "cm", "m", x))

def roundtrip_degF(x: float) -> float:
    """
    pre: -1e6 < x < 1e6
    post: _ == x
    """
    return db.Convert("temperature", "K", "degF", db.Convert("temperature", "degF", "K", x))

def scalar_route(x: float) -> bool:
    """
    pre: -1e6 < x < 1e6
    post: _
    """
    return Scalar(x, "cm").GetValue("m") == db.Convert("length", "cm", "m", x)

def lt_coherent(x: float, y: float) -> bool:
    """
    pre: -1e6 < x < 1e6 and -1e6 < y < 1e6
    post: _
    """
    a = Scalar(x, "m"); b = Scalar(y, "cm")
    return not (a > b and b > a)
