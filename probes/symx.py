"""Probe: float-subclass proxy carrying a z3 Real term; path forking by re-execution."""
import z3, math
from fractions import Fraction

class Abort(BaseException):
    pass

class Engine:
    def __init__(self):
        self.solver = z3.Solver()
        self.prefix = []
        self.trace = []
        self.pc = []
        self.work = []
        self.queries = 0

    def branch(self, cond):
        cond = z3.simplify(cond)
        if z3.is_true(cond):
            return True
        if z3.is_false(cond):
            return False
        i = len(self.trace)
        if i < len(self.prefix):
            d = self.prefix[i]
        else:
            # feasibility of both sides
            can_t = self._sat(cond)
            can_f = self._sat(z3.Not(cond))
            if can_t and can_f:
                self.work.append(self.prefix[:i] + [d for d in self.trace[len(self.prefix):]] + [False]) if False else None
                self.work.append(list(self.trace) + [False])
                d = True
            elif can_t:
                d = True
            elif can_f:
                d = False
            else:
                raise Abort("infeasible")
        self.trace.append(d)
        self.pc.append(cond if d else z3.Not(cond))
        return d

    def _sat(self, c):
        self.queries += 1
        self.solver.push()
        self.solver.add(*self.pc, c)
        r = self.solver.check()
        self.solver.pop()
        if r == z3.unknown:
            raise Abort("unknown")
        return r == z3.sat

    def explore(self, fn):
        self.work = [[]]
        results = []
        while self.work:
            self.prefix = self.work.pop()
            self.trace = []
            self.pc = []
            try:
                out = fn()
                results.append((list(self.pc), out, None))
            except Abort:
                raise
            except Exception as e:
                results.append((list(self.pc), None, e))
        return results

ENG = Engine()

def lift(v):
    if isinstance(v, Sym):
        return v.expr
    if isinstance(v, bool):
        return z3.RealVal(int(v))
    if isinstance(v, int):
        return z3.RealVal(v)
    if isinstance(v, float):
        if v != v or v in (float('inf'), float('-inf')):
            raise ValueError("non-finite constant")
        f = Fraction(v)
        return z3.RealVal(f.numerator) / z3.RealVal(f.denominator) if f.denominator != 1 else z3.RealVal(f.numerator)
    return None

class Sym(float):
    __slots__ = ("expr",)
    def __new__(cls, expr):
        o = float.__new__(cls, float('nan'))
        o.expr = expr
        return o
    def _bin(self, other, f, rev=False):
        o = lift(other)
        if o is None:
            return NotImplemented
        a, b = (o, self.expr) if rev else (self.expr, o)
        return Sym(z3.simplify(f(a, b)))
    def __add__(s, o): return s._bin(o, lambda a, b: a + b)
    def __radd__(s, o): return s._bin(o, lambda a, b: a + b, True)
    def __sub__(s, o): return s._bin(o, lambda a, b: a - b)
    def __rsub__(s, o): return s._bin(o, lambda a, b: a - b, True)
    def __mul__(s, o): return s._bin(o, lambda a, b: a * b)
    def __rmul__(s, o): return s._bin(o, lambda a, b: a * b, True)
    def _div(s, o, rev):
        e = lift(o)
        if e is None: return NotImplemented
        num, den = (e, s.expr) if rev else (s.expr, e)
        if ENG.branch(den == 0):
            raise ZeroDivisionError("float division by zero")
        return Sym(z3.simplify(num / den))
    def __truediv__(s, o): return s._div(o, False)
    def __rtruediv__(s, o): return s._div(o, True)
    def __neg__(s): return Sym(-s.expr)
    def __pos__(s): return s
    def __abs__(s): return Sym(z3.If(s.expr >= 0, s.expr, -s.expr))
    def _cmp(s, o, f):
        e = lift(o)
        if e is None: return NotImplemented
        return ENG.branch(f(s.expr, e))
    def __lt__(s, o): return s._cmp(o, lambda a, b: a < b)
    def __le__(s, o): return s._cmp(o, lambda a, b: a <= b)
    def __gt__(s, o): return s._cmp(o, lambda a, b: a > b)
    def __ge__(s, o): return s._cmp(o, lambda a, b: a >= b)
    def __eq__(s, o):
        e = lift(o)
        if e is None: return False
        return ENG.branch(s.expr == e)
    def __ne__(s, o):
        e = lift(o)
        if e is None: return True
        return ENG.branch(s.expr != e)
    def __bool__(s): return ENG.branch(s.expr != 0)
    def __hash__(s): raise TypeError("hash of symbolic")
    def __float__(s): return s
    def __repr__(s): return "Sym(%s)" % s.expr
    __str__ = __repr__

def sym_float(v=0.0):
    if isinstance(v, Sym):
        return v
    return float(v)
