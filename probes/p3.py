from typing import List
def ref_render(ue):
    num = ".".join((u if e == 1 else "%s%d" % (u, e)) for u, e in ue if e > 0)
    den = ".".join((u if e == -1 else "%s%d" % (u, -e)) for u, e in ue if e < 0)
    if den:
        return (num or "1") + "/" + den
    return num

def fixed_render(composing_units):
    ret = ""
    for unit, exp in composing_units:
        if exp > 0:
            if ret:
                ret += "."
            if exp != 1:
                ret += f"{unit}{exp}"
            else:
                ret += unit
    added_div = False
    for unit, exp in composing_units:
        if exp < 0:
            if not added_div:
                added_div = True
                if ret:
                    ret += "/"
                else:
                    ret += "1/"
            else:
                ret += "."
            ret += unit
            if exp != -1:
                ret += str(abs(exp))
    return ret

def c20_fixed(e1: int, e2: int, e3: int) -> bool:
    """
    pre: -4 <= e1 <= 4 and -4 <= e2 <= 4 and -4 <= e3 <= 4
    post: _
    """
    ue = (("m", e1), ("s", e2), ("kg", e3))
    return fixed_render(ue) == ref_render(ue)
