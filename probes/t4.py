import z3, numpy, time
from symx import *
import symx
import barril.units._scalar as _scalar, barril.units._array as _array
_scalar.float = sym_float; _array.float = sym_float
from barril.units import UnitDatabase, Scalar, Array, ObtainQuantity, FixedArray
from barril.units.posc import FillUnitDatabaseWithPosc
x = Sym(z3.Real('x')); m = Sym(z3.Real('m')); M = Sym(z3.Real('M')); d = Sym(z3.Real('d'))

def valid(pc, neg):
    s = z3.Solver(); s.add(*pc, neg); return s.check()

# symbolic limits through real AddCategory + CheckValue (non-default unit)
def run():
    db = UnitDatabase()
    FillUnitDatabaseWithPosc(db)
    UnitDatabase.PushSingleton(db)
    try:
        db.AddCategory("mylen", "length", min_value=m, max_value=M, is_min_exclusive=True, default_value=d)
        s = Scalar(x, "cm", "mylen")
        return s.IsValid()
    finally:
        UnitDatabase.PopSingleton()
t=time.time()
res = ENG.explore(run)
print(len(res), "paths", round(time.time()-t,2), "s")
k = z3.RealVal("5764607523034235")/z3.RealVal("576460752303423488")
bad=0
for pc,out,exc in res:
    if exc is not None:
        print(" exc", type(exc).__name__, str(exc)[:60]); continue
    oracle = z3.And(k*x.expr > m.expr, k*x.expr <= M.expr)
    r = valid(pc, oracle != z3.BoolVal(out))
    if r != z3.unsat: bad+=1
print("bad", bad)
