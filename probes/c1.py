import traceback, numpy
from barril.units import *
from barril.units.unit_database import UnitDatabase
from barril.basic.fraction import Fraction, FractionValue
def t(name, f):
    try: print(name, "->", repr(f()))
    except BaseException as e: print(name, "EXC", type(e).__name__, str(e)[:100])
s = Scalar(1,'m')*Scalar(1,'m')
t("derived own unit", lambda: (s.GetUnit(), s.GetValue('m2')))
t("derived own unit2", lambda: (s.GetUnit(), s.GetValue(s.GetUnit())))
d = Scalar(1,'m')/Scalar(2,'s')
t("derived m/s own", lambda: (d.GetUnit(), d.GetValue('m/s')))
t("derived createcopy", lambda: d.CreateCopy())
t("m2+cm2", lambda: Scalar(1,'m')*Scalar(1,'m') + Scalar(100,'cm')*Scalar(100,'cm'))
t("cm*(m*m)", lambda: Scalar(1,'cm')*(Scalar(1,'m')*Scalar(1,'m')))
t("(m/s)/kg", lambda: (Scalar(1,'m')/Scalar(1,'s')/Scalar(1,'kg')).GetUnit())
t("fixed==array", lambda: FixedArray(2,[1,2],'m') == Array([1,2],'m'))
t("array==fixed", lambda: Array([1,2],'m') == FixedArray(2,[1,2],'m'))
t("frac==None", lambda: Fraction(1,2) == None)
t("np*Array", lambda: numpy.array([1.,2.])*Array([1.,2.],'m'))
t("list len mismatch", lambda: Array([1.,2.,3.],'m')+Array([1.,2.],'m'))
t("5 1/2 degC", lambda: FractionScalar(FractionValue(5,(1,2)),'degC').GetValue('K'))
sc = Scalar(1,'km','depth'); before = list(UnitDatabase.GetSingleton().GetValidUnits('depth')); sc.GetValidUnits(); after = UnitDatabase.GetSingleton().GetValidUnits('depth')
print("validunits grew", len(before), len(after))
from barril.units.unit_system_manager import UnitSystemManager
m = UnitSystemManager(); 
t("remove none-current", lambda: (m.AddUnitSystem('a','A',{}), m.SetCurrent(None), m.RemoveUnitSystem('a')))
print(list(m.GetUnitSystems()))
m.AddUnitSystem('x','X',{'depth':'km'})
t("ConvertScalarToCurrent cat", lambda: m.ConvertScalarToCurrent(Scalar(1,'m','depth')))
# stale category info
db = UnitDatabase(); UnitDatabase.PushSingleton(db) if hasattr(UnitDatabase,'PushSingleton') else None
