import z3, time
from symx import *
from barril.units import UnitDatabase
db = UnitDatabase.GetSingleton()
x = Sym(z3.Real('x'))
t=time.time(); n=0; bad=0; nontriv=0
s = z3.Solver()
for qt, infos in db.quantity_types.items():
    us=[i.unit for i in infos]
    for u in us:
        for v in us:
            ENG.prefix=[]; ENG.trace=[]; ENG.pc=[]
            r = db.Convert(qt, v, u, db.Convert(qt, u, v, x))
            n+=1
            if r is x: continue
            e = z3.simplify(r.expr - x.expr)
            if z3.is_rational_value(e) and e.as_fraction()==0: continue
            nontriv+=1
            s.push(); s.add(z3.Or(e > 1e-13*(z3.If(x.expr>=0,x.expr,-x.expr)+1), -e > 1e-13*(z3.If(x.expr>=0,x.expr,-x.expr)+1)))
            if s.check()!=z3.unsat: bad+=1; print(qt,u,v,e)
            s.pop()
print(n, "pairs", nontriv, "needed solver", bad, "bad", round(time.time()-t,1), "s")
