import z3, time
from symx import ENG, Abort
import symx
_ctr=[0]
def fresh(p): _ctr[0]+=1; return z3.Int('%s%d'%(p,_ctr[0]))
class SymInt(int):
    def __new__(cls, e):
        o = int.__new__(cls, 0xDEAD0BAD); o.expr = e; return o
    @staticmethod
    def l(o):
        if isinstance(o, SymInt): return o.expr
        if isinstance(o, bool): return z3.IntVal(int(o))
        if isinstance(o, int): return z3.IntVal(o)
        if isinstance(o, float):
            from fractions import Fraction as F
            if o!=o or o in (float('inf'),float('-inf')): return None
            f=F(o); return z3.RealVal(f.numerator)/z3.RealVal(f.denominator)
        return None
    def _b(s,o,f,rev=False):
        e=SymInt.l(o)
        if e is None: return NotImplemented
        a,b=(e,s.expr) if rev else (s.expr,e)
        r=f(a,b)
        return SymInt(z3.simplify(r)) if r.sort()==z3.IntSort() else NotImplemented
    def __add__(s,o): return s._b(o,lambda a,b:a+b)
    def __radd__(s,o): return s._b(o,lambda a,b:a+b,True)
    def __sub__(s,o): return s._b(o,lambda a,b:a-b)
    def __rsub__(s,o): return s._b(o,lambda a,b:a-b,True)
    def __mul__(s,o): return s._b(o,lambda a,b:a*b)
    def __rmul__(s,o): return s._b(o,lambda a,b:a*b,True)
    def __neg__(s): return SymInt(-s.expr)
    def __abs__(s): return SymInt(z3.If(s.expr>=0,s.expr,-s.expr))
    def __round__(s,n=None): return s
    def _c(s,o,f):
        e=SymInt.l(o)
        if e is None: return NotImplemented
        return ENG.branch(f(s.expr,e))
    def __lt__(s,o): return s._c(o,lambda a,b:a<b)
    def __le__(s,o): return s._c(o,lambda a,b:a<=b)
    def __gt__(s,o): return s._c(o,lambda a,b:a>b)
    def __ge__(s,o): return s._c(o,lambda a,b:a>=b)
    def __eq__(s,o):
        e=SymInt.l(o)
        return False if e is None else ENG.branch(s.expr==e)
    def __ne__(s,o):
        e=SymInt.l(o)
        return True if e is None else ENG.branch(s.expr!=e)
    def __bool__(s): return ENG.branch(s.expr!=0)
    def __hash__(s): raise TypeError
    def __repr__(s): return "SymInt(%s)"%s.expr
class SymFrac:
    """value: z3 Real term; representation-agnostic numerator/denominator"""
    def __init__(s, a, b=None, _val=None):
        if _val is not None: s.val=_val
        else:
            ea = a.val if isinstance(a,SymFrac) else z3.ToReal(SymInt.l(a)) if SymInt.l(a).sort()==z3.IntSort() else SymInt.l(a)
            if b is None: s.val=ea
            else:
                eb = z3.ToReal(SymInt.l(b))
                if ENG.branch(eb==0): raise ZeroDivisionError
                s.val=ea/eb
        s._nd=None
    def _rep(s):
        if s._nd is None:
            N,D=fresh('N'),fresh('D')
            ENG.assume(z3.And(D>0, z3.ToReal(N)==s.val*z3.ToReal(D)))
            s._nd=(SymInt(N),SymInt(D))
        return s._nd
    numerator=property(lambda s:s._rep()[0]); denominator=property(lambda s:s._rep()[1])
    def __add__(s,o): return SymFrac(0,_val=s.val+o.val)
    def __neg__(s): return SymFrac(0,_val=-s.val)
    def __truediv__(s,o):
        if ENG.branch(o.val==0): raise ZeroDivisionError
        return SymFrac(0,_val=s.val/o.val)
    def __rtruediv__(s,o):
        if ENG.branch(s.val==0): raise ZeroDivisionError
        return SymFrac(0,_val=z3.ToReal(SymInt.l(o))/s.val)
def assume(c): ENG.pc.append(c)
ENG.assume=assume
import barril.basic.fraction._fraction as fr
fr.StdFraction = SymFrac
from barril.basic.fraction import Fraction
a,b,c,d = [SymInt(z3.Int(n)) for n in 'abcd']
B=16
dom = [z3.And(v.expr>=-B, v.expr<=B) for v in (a,b,c,d)]+[b.expr!=0,d.expr!=0]
def val(f): return f.x.val
def run(op):
    def h():
        for c_ in dom: ENG.pc.append(c_)
        return op(Fraction(a,b), Fraction(c,d))
    return h
ra = z3.ToReal(a.expr)/z3.ToReal(b.expr); rc = z3.ToReal(c.expr)/z3.ToReal(d.expr)
tests = [("lt", lambda p,q: p<q, lambda out: out == (ra<rc)),
         ("eq", lambda p,q: p==q, lambda out: out == (ra==rc)),
         ("add", lambda p,q: val(p+q), lambda out: out == ra+rc),
         ("sub", lambda p,q: val(p-q), lambda out: out == ra-rc),
         ("mul", lambda p,q: val(p*q), lambda out: out == ra*rc),
         ("div", lambda p,q: val(p/q), lambda out: out == ra/rc),
         ("abs", lambda p,q: val(abs(p)), lambda out: out == z3.If(ra>=0,ra,-ra)),
         ("rsub", lambda p,q: val(3-p), lambda out: out == 3-ra),
        ]
for name,op,prop in tests:
    t=time.time()
    try:
        res = ENG.explore(run(op))
    except Abort as e:
        print(name,"ABORT",e, round(time.time()-t,1)); continue
    verdicts=[]
    for pc,out,exc in res:
        if exc is not None: verdicts.append(type(exc).__name__); continue
        s=z3.Solver(); s.set("timeout",20000); s.add(*pc)
        o = z3.BoolVal(out) if isinstance(out,bool) else out
        s.add(z3.Not(prop(o))); verdicts.append(str(s.check()))
    import collections
    print(name, len(res),"paths", dict(collections.Counter(verdicts)), round(time.time()-t,1),"s")
