import z3, time, itertools
from fractions import Fraction
from symx import *
import barril.units._scalar as _scalar
_scalar.float = sym_float
from barril.units import UnitDatabase, Scalar
db = UnitDatabase.GetSingleton()
xs = [Sym(z3.Real('x%d'%i)) for i in range(4)]
def k(u):
    f = db.unit_to_unit_info[u].tobase
    if not hasattr(f,'__a__'): return z3.RealVal(1)
    fr = Fraction(f.__b__)/Fraction(f.__c__)
    return z3.RealVal(fr.numerator)/z3.RealVal(fr.denominator)
def mag(s):
    e = s.value.expr if isinstance(s.value, Sym) else z3.RealVal(s.value)
    for cat,(u,ex) in s.GetQuantity().GetCategoryToUnitAndExps().items():
        kk = k(u)
        for _ in range(abs(ex)): e = e*kk if ex>0 else e/kk
    return e
L = ['m','cm','ft']; T=['s','min']; M=['kg','g']
t=time.time(); n=0; sat=0; unk=0; simp=0; uns=0; exc=0
progs = [
 ("a*b/c", lambda a,b,c,d: a*b/c, lambda a,b,c,d: mag(a)*mag(b)/mag(c)),
 ("(a/c)/d", lambda a,b,c,d: (a/c)/d, lambda a,b,c,d: mag(a)/mag(c)/mag(d)),
 ("b*(a*a)", lambda a,b,c,d: b*(a*a), lambda a,b,c,d: mag(b)*mag(a)*mag(a)),
 ("(a*a)*b", lambda a,b,c,d: (a*a)*b, lambda a,b,c,d: mag(b)*mag(a)*mag(a)),
 ("a*b+b*a", lambda a,b,c,d: a*b+b*a, lambda a,b,c,d: 2*mag(a)*mag(b)),
 ("a/c-b/c", lambda a,b,c,d: a/c-b/c, lambda a,b,c,d: (mag(a)-mag(b))/mag(c)),
 ("1/(c*c)+1/(c*c)", lambda a,b,c,d: 1.0/(c*c)+1.0/(c*Scalar(xs[2],'min')), lambda a,b,c,d: 1/(mag(c)*mag(c)) + 1/(mag(c)*xs[2].expr*60)),
]
shown=set()
for u1,u2,u3,u4 in itertools.product(L,L,T,M):
    for name,f,ref in progs:
        def h():
            a=Scalar(xs[0],u1); b=Scalar(xs[1],u2); c=Scalar(xs[2],u3); d=Scalar(xs[3],u4)
            return mag(f(a,b,c,d)), ref(a,b,c,d)
        for pc,out,e in ENG.explore(h):
            if e is not None: exc+=1; continue
            n+=1
            lhs,rhs=out
            diff = z3.simplify(lhs-rhs, som=True)
            if z3.is_rational_value(diff) and diff.as_fraction()==0: simp+=1; continue
            s=z3.Solver(); s.set("timeout", 10000); s.add(*pc); s.add(z3.Or(lhs-rhs > 1e-13*(1+z3.If(rhs>0,rhs,-rhs)), rhs-lhs > 1e-13*(1+z3.If(rhs>0,rhs,-rhs))))
            r=str(s.check())
            if r=='sat': sat+=1
            elif r=='unsat': uns+=1
            else: unk+=1
            if (name,r) not in shown: shown.add((name,r)); print(name,u1,u2,u3,u4,r, s.model() if r=='sat' else '')
print(n,"obligations; simp",simp,"unsat",uns,"sat",sat,"unknown",unk,"exc paths",exc, round(time.time()-t,1),"s")
