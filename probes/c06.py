import re, math
from fractions import Fraction
from barril.units import UnitDatabase
db = UnitDatabase.GetSingleton()
U = db.unit_to_unit_info
def slope(u):
    i = U[u]; f = i.tobase
    if not getattr(f,'__has_conversion__',True) and not hasattr(f,'__a__'): return Fraction(1)
    a,b,c,d = map(Fraction,(f.__a__,f.__b__,f.__c__,f.__d__))
    assert d==0
    return b/c
def factor(tok):
    """return list of (unit, exp) or None"""
    if tok in U: return [(tok,1)]
    m = re.match(r'^(.*?)(\d+)$', tok)
    if m and m.group(1) in U: return [(m.group(1), int(m.group(2)))]
    return None
def parse(sym):
    if sym.count('/')>1: return None
    num, _, den = sym.partition('/')
    mult = Fraction(1); out=[]
    for part, sign in ((num,1),(den,-1)):
        if part=='' : 
            if sign==-1: continue
            return None
        for tok in part.split('.'):
            if tok=='1' and sign==1 and part=='1': continue
            f = factor(tok)
            if f is None:
                m = re.match(r'^(\d+(?:[eE]\d+)?)(.+)$', tok)
                if m:
                    f = factor(m.group(2))
                    if f is not None:
                        mult *= Fraction(float(m.group(1)))**sign
                if f is None: return None
            out += [(u,e*sign) for u,e in f]
    return mult, out
n=0; dec=0; bad=[]
for sym,i in U.items():
    p = parse(sym)
    if p is None: continue
    mult, comps = p
    if len(comps)==1 and comps[0]==(sym,1) and mult==1: continue
    dec+=1
    k = mult
    for u,e in comps: k *= slope(u)**e
    ks = slope(sym)
    rel = abs(float(k/ks)-1)
    if rel>1e-4: bad.append((rel, sym, i.quantity_type, float(ks), float(k), comps))
print("decomposable", dec, "mismatch>1e-4", len(bad))
for b in sorted(bad, reverse=True)[:80]: print("%.3g"%b[0], b[1], '|', b[2], '| table', b[3], 'composed', b[4])
import collections
hist = collections.Counter()
rows=[]
for sym,i in U.items():
    p = parse(sym)
    if p is None: continue
    mult, comps = p
    if len(comps)==1 and comps[0]==(sym,1) and mult==1: continue
    k = mult
    for u,e in comps: k *= slope(u)**e
    rel = abs(float(k/slope(sym))-1)
    def sig(u):
        f=U[u].tobase
        if not hasattr(f,'__a__'): return 17
        return min(len(repr(float(v)).replace('.','').replace('-','').lstrip('0').split('e')[0].rstrip('0')) or 1 for v in (f.__b__,f.__c__))
    s = min([sig(sym)]+[sig(u) for u,e in comps])
    rows.append((rel,s,sym))
    hist[-99 if rel==0 else int(math.floor(math.log10(rel)))]+=1
print(sorted(hist.items()))
# rule: tau = 5 * 10^-(s-1)  (half unit in last sig digit of coarsest literal, times sum of exps ~)
viol=[(r,s,sym) for r,s,sym in rows if r > 10*10.0**(-(s-1))]
print("rule violations", len(viol))
for v in sorted(viol,reverse=True)[40:90]: print("%.2g"%v[0], v[1], v[2])
