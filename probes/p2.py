from typing import List, Tuple, Dict, Optional
from barril.units import UnitDatabase, Scalar, FixedArray, Quantity
from barril.units.unit_database import FixUnitIfIsLegacy
from barril.units.unit_system_manager import UnitSystemManager
from barril.basic.fraction import Fraction, FractionValue

def ref_render(ue):
    num = ".".join((u if e == 1 else "%s%d" % (u, e)) for u, e in ue if e > 0)
    den = ".".join((u if e == -1 else "%s%d" % (u, -e)) for u, e in ue if e < 0)
    if den:
        return (num or "1") + "/" + den
    return num

class _Q:
    def __init__(self, ue): self.ue = ue
    def GetComposingUnitsJoiningExponents(self): return self.ue

def c20_unit_string(e1: int, e2: int, e3: int) -> bool:
    """
    pre: -4 <= e1 <= 4 and -4 <= e2 <= 4 and -4 <= e3 <= 4
    pre: e1 != 0 and e2 != 0 and e3 != 0
    post: _
    """
    ue = (("m", e1), ("s", e2), ("kg", e3))
    return Quantity._CreateUnitsWithJoinedExponentsString(_Q(ue)) == ref_render(ue)

def c20_two(e1: int, e2: int) -> bool:
    """
    pre: -4 <= e1 <= 4 and -4 <= e2 <= 4
    pre: e1 != 0 and e2 != 0
    post: _
    """
    ue = (("m", e1), ("s", e2))
    return Quantity._CreateUnitsWithJoinedExponentsString(_Q(ue)) == ref_render(ue)

def c16_idem(s: str) -> bool:
    """
    pre: len(s) <= 8
    post: _
    """
    a = FixUnitIfIsLegacy(s)[1]
    return FixUnitIfIsLegacy(a)[1] == a

def c11_fixed(dimension: int, values: List[float]) -> bool:
    """
    pre: len(values) <= 4
    post: _
    """
    try:
        f = FixedArray(dimension, values, "m")
    except ValueError:
        return True
    return f.dimension == len(f.values) and f.dimension >= 2

def c18_frac_lt(a: int, b: int, c: int, d: int) -> bool:
    """
    pre: -50 <= a <= 50 and 1 <= b <= 50 and -50 <= c <= 50 and 1 <= d <= 50
    post: _
    """
    return (Fraction(a, b) < Fraction(c, d)) == (a * d < c * b)

def c17_add(id: str) -> bool:
    """
    pre: len(id) <= 3
    post: _
    """
    m = UnitSystemManager()
    m.AddUnitSystem("a", "A", {})
    m.AddUnitSystem("b", "B", {})
    try:
        m.AddUnitSystem(id, "C", {})
    except KeyError:
        return id in ("a", "b") and len(m.GetUnitSystems()) == 2
    return id not in ("a", "b") and len(m.GetUnitSystems()) == 3 and m.GetCurrent().GetId() == "a"
