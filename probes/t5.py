import z3, numpy, time, itertools
from symx import ENG, Abort
import symx
F64 = z3.Float64()
class SymFP(float):
    __slots__=("expr",)
    def __new__(cls, e):
        o = float.__new__(cls, float('nan')); o.expr = e; return o
    def _l(self, o):
        if isinstance(o, SymFP): return o.expr
        if isinstance(o, (int, float)): return z3.FPVal(float(o), F64)
        return None
    def __lt__(s,o): return ENG.branch(z3.fpLT(s.expr, s._l(o)))
    def __le__(s,o): return ENG.branch(z3.fpLEQ(s.expr, s._l(o)))
    def __gt__(s,o): return ENG.branch(z3.fpGT(s.expr, s._l(o)))
    def __ge__(s,o): return ENG.branch(z3.fpGEQ(s.expr, s._l(o)))
    def __eq__(s,o): return ENG.branch(z3.fpEQ(s.expr, s._l(o)))
    def __ne__(s,o): return ENG.branch(z3.Not(z3.fpEQ(s.expr, s._l(o))))
    def __hash__(s): raise TypeError
    def __float__(s): return s
_isnan = numpy.isnan
def isnan(v):
    if isinstance(v, SymFP): return ENG.branch(z3.fpIsNaN(v.expr))
    return _isnan(v)
numpy.isnan = isnan
import barril.units._scalar as _scalar, barril.units._array as _array
_f = lambda v=0.0: v if isinstance(v, SymFP) else float(v)
_scalar.float = _f; _array.float = _f
from barril.units import UnitDatabase, Scalar, Array
from barril.units.posc import FillUnitDatabaseWithPosc
db = UnitDatabase(); FillUnitDatabaseWithPosc(db); UnitDatabase.PushSingleton(db)
db.AddCategory("mylen", "length", min_value=0.0, max_value=10.0, is_max_exclusive=True, default_value=1.0)
N=4
xs = [SymFP(z3.FP('x%d'%i, F64)) for i in range(N)]
def run(): return Array(list(xs), "m", "mylen").IsValid()
t=time.time(); res = ENG.explore(run); print(len(res),"paths",round(time.time()-t,2),"s", ENG.queries,"queries")
lo, hi = z3.FPVal(0.0,F64), z3.FPVal(10.0,F64)
oracle = z3.And(*[z3.Or(z3.fpIsNaN(v.expr), z3.And(z3.fpGEQ(v.expr, lo), z3.fpLT(v.expr, hi))) for v in xs])
bad=0; t=time.time()
for pc,out,exc in res:
    s=z3.Solver(); s.add(*pc, oracle != z3.BoolVal(out))
    if s.check()!=z3.unsat: bad+=1; print(s.model()); break
print("bad",bad, round(time.time()-t,2),"s")
