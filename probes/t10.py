import z3, time, types, math as _m
from symx import *
import symx
import barril.units.unit_database as udb, barril.units._scalar as _scalar
_scalar.float = sym_float
_ctr=[0]
def spow(x, y):
    if not isinstance(x, Sym): return _m.pow(x, y)
    from fractions import Fraction as F
    fy = F(y).limit_denominator(16)
    if fy.denominator == 1:
        n = fy.numerator; e = x.expr; r = z3.RealVal(1)
        for _ in range(abs(n)): r = r*e
        return Sym(r if n>=0 else 1/r)
    assert fy.numerator in (1,-1)
    n = fy.denominator; _ctr[0]+=1; r = z3.Real('root%d'%_ctr[0])
    rn = z3.RealVal(1)
    for _ in range(n): rn = rn*r
    ENG.pc.append(z3.And(r>=0, rn==x.expr))
    return Sym(r) if fy.numerator==1 else Sym(1/r)
shim = types.ModuleType('math'); shim.__dict__.update(_m.__dict__); shim.pow = spow
udb.math = shim
from barril.units import UnitDatabase, Scalar
from barril.units.posc import FillUnitDatabaseWithPosc
db = UnitDatabase.GetSingleton()
x = Sym(z3.Real('x'))
k = z3.RealVal("576460752303423488")/z3.RealVal("5764607523034235")
for exp in (2,3,-1,-2):
    t=time.time()
    res = ENG.explore(lambda: db.Convert('length', [('m',exp)], [('cm',exp)], x))
    for pc,out,exc in res:
        if exc is not None: print(exp,"exc",type(exc).__name__, exc); continue
        ref = x.expr
        for _ in range(abs(exp)): ref = ref*k if exp>0 else ref/k
        s=z3.Solver(); s.set("timeout",20000); s.add(*pc); s.add(z3.Or(out.expr-ref > 1e-13*(1+z3.If(ref>0,ref,-ref)), ref-out.expr > 1e-13*(1+z3.If(ref>0,ref,-ref))))
        print("exp",exp,"path",len(pc),s.check(), round(time.time()-t,2))
# fresh POSC cost
t=time.time()
for _ in range(5):
    d2 = UnitDatabase(); FillUnitDatabaseWithPosc(d2)
print("fill posc", round((time.time()-t)/5,3),"s each")
# stale category info (concrete)
d2 = UnitDatabase(); FillUnitDatabaseWithPosc(d2); UnitDatabase.PushSingleton(d2)
d2.AddCategory("mylen","length",min_value=0.0)
s1 = Scalar(-1.0,"m","mylen"); print("before override valid(-1):", s1.IsValid())
d2.AddCategory("mylen","length",min_value=-5.0, override=True)
s2 = Scalar(-1.0,"m","mylen"); print("after override valid(-1) warm:", s2.IsValid(), "db min:", d2.GetCategoryInfo("mylen").min_value)
UnitDatabase.PopSingleton()
